//! R-tree: a uniform, flattened view of solang's parse tree (DESIGN.md section 5.1).
//!
//! Every `match` on a `pt` enum in this file is exhaustive *without wildcard arms* and every struct
//! pattern names all fields, so the compiler proves that each variant and each field of the parse
//! tree has been considered.  Nothing here shares code with /repo/src.
//!
//! Nodes are stored in pre-order (parent before children, children in field order).  Nodes that
//! are not `Node`s in solstat's vocabulary (parameters, catch clauses, bases, attributes, named
//! arguments, declarations) are kept as *auxiliary* nodes so that ancestors can be inspected.

use solang_parser::pt;

#[derive(Clone, Copy, Debug, PartialEq, Eq, Hash)]
pub enum Class {
    SourceUnit,
    Part,
    CPart,
    Stmt,
    Expr,
    Aux,
}

#[derive(Clone, Copy)]
pub enum PtRef<'a> {
    SourceUnit(&'a pt::SourceUnit),
    Part(&'a pt::SourceUnitPart),
    CPart(&'a pt::ContractPart),
    Stmt(&'a pt::Statement),
    Expr(&'a pt::Expression),
    Param(&'a pt::Parameter),
    Catch(&'a pt::CatchClause),
    Base(&'a pt::Base),
    FnAttr(&'a pt::FunctionAttribute),
    NamedArg(&'a pt::NamedArgument),
    VarDecl(&'a pt::VariableDeclaration),
    EventParam(&'a pt::EventParameter),
    ErrorParam(&'a pt::ErrorParameter),
    Func(&'a pt::FunctionDefinition),
}

pub struct RNode<'a> {
    /// Kind name in solstat's Target vocabulary (plus Assembly / Continue / Break / aux:*).
    pub kind: &'static str,
    pub class: Class,
    pub pt: PtRef<'a>,
    pub start: usize,
    pub end: usize,
    pub slot: &'static str,
    pub parent: Option<usize>,
    pub children: Vec<usize>,
    /// one past the last index of this node's subtree (pre-order storage makes subtrees contiguous)
    pub sub_end: usize,
}

pub struct RTree<'a> {
    pub nodes: Vec<RNode<'a>>,
}

/// All recursion sites ("slots") registered by the conversion.  Used for coverage accounting.
pub const ALL_SLOTS: &[&str] = &[
    "root",
    "SourceUnit.part",
    "Contract.base",
    "Base.arg",
    "Contract.part",
    "Struct.field",
    "VarDecl.ty",
    "Event.field",
    "EventParam.ty",
    "Error.field",
    "ErrorParam.ty",
    "TypeDef.ty",
    "Using.ty",
    "VarDef.ty",
    "VarDef.init",
    "Func.def",
    "Func.param",
    "Func.attr",
    "Func.return",
    "Func.body",
    "Param.ty",
    "FnAttr.base",
    "FnAttr.value",
    "Block.stmt",
    "Args.arg",
    "NamedArg.expr",
    "If.cond",
    "If.then",
    "If.else",
    "While.cond",
    "While.body",
    "ExprStmt.expr",
    "LocalDef.decl",
    "LocalDef.init",
    "For.init",
    "For.cond",
    "For.next",
    "For.body",
    "DoWhile.body",
    "DoWhile.cond",
    "Return.expr",
    "Revert.arg",
    "RevertNamed.arg",
    "Emit.expr",
    "Try.expr",
    "Try.return",
    "Try.block",
    "Try.catch",
    "Catch.param",
    "Catch.block",
    "Unary.operand",
    "Paren.inner",
    "Binary.left",
    "Binary.right",
    "Ternary.cond",
    "Ternary.then",
    "Ternary.else",
    "Subscript.base",
    "Subscript.index",
    "Slice.base",
    "Slice.lo",
    "Slice.hi",
    "Member.object",
    "Call.callee",
    "Call.arg",
    "CallBlock.callee",
    "CallBlock.block",
    "NamedCall.callee",
    "NamedCall.arg",
    "List.param",
    "ArrayLit.elem",
    "Unit.operand",
    "Mapping.key",
    "Mapping.value",
    "FnType.param",
    "FnType.attr",
    "FnType.return",
    "FnType.retattr",
];

/// Slots the grammar of solang-parser 0.1.18 cannot produce (DESIGN.md appendix A).
pub const UNREALISABLE_SLOTS: &[(&str, &str)] = &[];

fn loc_se(l: &pt::Loc) -> (usize, usize) {
    match l {
        pt::Loc::File(_, s, e) => (*s, *e),
        pt::Loc::Builtin | pt::Loc::CommandLine | pt::Loc::Implicit | pt::Loc::Codegen => (0, 0),
    }
}

impl<'a> RTree<'a> {
    pub fn convert(su: &'a pt::SourceUnit) -> RTree<'a> {
        let mut t = RTree { nodes: Vec::new() };
        let pt::SourceUnit(parts) = su;
        let (s, e) = match (parts.first(), parts.last()) {
            (Some(f), Some(l)) => (part_loc(f).0, part_loc(l).1),
            _ => (0, 0),
        };
        let root = t.push("SourceUnit", Class::SourceUnit, PtRef::SourceUnit(su), (s, e), "root", None);
        for p in parts {
            t.part(p, root);
        }
        let n = t.nodes.len();
        for i in (0..n).rev() {
            let e = match t.nodes[i].children.last() {
                Some(&c) => t.nodes[c].sub_end,
                None => i + 1,
            };
            t.nodes[i].sub_end = e;
        }
        t
    }

    fn push(
        &mut self,
        kind: &'static str,
        class: Class,
        ptr: PtRef<'a>,
        se: (usize, usize),
        slot: &'static str,
        parent: Option<usize>,
    ) -> usize {
        let id = self.nodes.len();
        self.nodes.push(RNode {
            kind,
            class,
            pt: ptr,
            start: se.0,
            end: se.1,
            slot,
            parent,
            children: Vec::new(),
            sub_end: 0,
        });
        if let Some(p) = parent {
            self.nodes[p].children.push(id);
        }
        id
    }

    fn part(&mut self, p: &'a pt::SourceUnitPart, parent: usize) {
        let se = part_loc(p);
        match p {
            pt::SourceUnitPart::ContractDefinition(cd) => {
                let id = self.push("ContractDefinition", Class::Part, PtRef::Part(p), se, "SourceUnit.part", Some(parent));
                let pt::ContractDefinition { loc: _, ty, name: _, base, parts } = &**cd;
                match ty {
                    pt::ContractTy::Abstract(_) | pt::ContractTy::Contract(_) | pt::ContractTy::Interface(_) | pt::ContractTy::Library(_) => {}
                }
                for b in base {
                    self.base(b, id, "Contract.base");
                }
                for cp in parts {
                    self.cpart(cp, id);
                }
            }
            pt::SourceUnitPart::PragmaDirective(_loc, _id, _lit) => {
                self.push("PragmaDirective", Class::Part, PtRef::Part(p), se, "SourceUnit.part", Some(parent));
            }
            pt::SourceUnitPart::ImportDirective(imp) => {
                match imp {
                    pt::Import::Plain(_, _) | pt::Import::GlobalSymbol(_, _, _) | pt::Import::Rename(_, _, _) => {}
                }
                self.push("ImportDirective", Class::Part, PtRef::Part(p), se, "SourceUnit.part", Some(parent));
            }
            pt::SourceUnitPart::EnumDefinition(ed) => {
                let pt::EnumDefinition { loc: _, name: _, values: _ } = &**ed;
                self.push("EnumDefinition", Class::Part, PtRef::Part(p), se, "SourceUnit.part", Some(parent));
            }
            pt::SourceUnitPart::StructDefinition(sd) => {
                let id = self.push("StructDefinition", Class::Part, PtRef::Part(p), se, "SourceUnit.part", Some(parent));
                self.struct_def(sd, id);
            }
            pt::SourceUnitPart::EventDefinition(ed) => {
                let id = self.push("EventDefinition", Class::Part, PtRef::Part(p), se, "SourceUnit.part", Some(parent));
                self.event_def(ed, id);
            }
            pt::SourceUnitPart::ErrorDefinition(ed) => {
                let id = self.push("ErrorDefinition", Class::Part, PtRef::Part(p), se, "SourceUnit.part", Some(parent));
                self.error_def(ed, id);
            }
            pt::SourceUnitPart::FunctionDefinition(fd) => {
                let id = self.push("FunctionDefinition", Class::Part, PtRef::Part(p), se, "SourceUnit.part", Some(parent));
                self.func_def(fd, id);
            }
            pt::SourceUnitPart::VariableDefinition(vd) => {
                let id = self.push("VariableDefinition", Class::Part, PtRef::Part(p), se, "SourceUnit.part", Some(parent));
                self.var_def(vd, id);
            }
            pt::SourceUnitPart::TypeDefinition(td) => {
                let id = self.push("TypeDefinition", Class::Part, PtRef::Part(p), se, "SourceUnit.part", Some(parent));
                let pt::TypeDefinition { loc: _, name: _, ty } = &**td;
                self.expr(ty, id, "TypeDef.ty");
            }
            pt::SourceUnitPart::Using(u) => {
                let id = self.push("Using", Class::Part, PtRef::Part(p), se, "SourceUnit.part", Some(parent));
                self.using(u, id);
            }
            pt::SourceUnitPart::StraySemicolon(_loc) => {
                self.push("StraySemicolon", Class::Part, PtRef::Part(p), se, "SourceUnit.part", Some(parent));
            }
        }
    }

    fn cpart(&mut self, p: &'a pt::ContractPart, parent: usize) {
        let se = cpart_loc(p);
        match p {
            pt::ContractPart::StructDefinition(sd) => {
                let id = self.push("StructDefinition", Class::CPart, PtRef::CPart(p), se, "Contract.part", Some(parent));
                self.struct_def(sd, id);
            }
            pt::ContractPart::EventDefinition(ed) => {
                let id = self.push("EventDefinition", Class::CPart, PtRef::CPart(p), se, "Contract.part", Some(parent));
                self.event_def(ed, id);
            }
            pt::ContractPart::EnumDefinition(ed) => {
                let pt::EnumDefinition { loc: _, name: _, values: _ } = &**ed;
                self.push("EnumDefinition", Class::CPart, PtRef::CPart(p), se, "Contract.part", Some(parent));
            }
            pt::ContractPart::ErrorDefinition(ed) => {
                let id = self.push("ErrorDefinition", Class::CPart, PtRef::CPart(p), se, "Contract.part", Some(parent));
                self.error_def(ed, id);
            }
            pt::ContractPart::VariableDefinition(vd) => {
                let id = self.push("VariableDefinition", Class::CPart, PtRef::CPart(p), se, "Contract.part", Some(parent));
                self.var_def(vd, id);
            }
            pt::ContractPart::FunctionDefinition(fd) => {
                let id = self.push("FunctionDefinition", Class::CPart, PtRef::CPart(p), se, "Contract.part", Some(parent));
                self.func_def(fd, id);
            }
            pt::ContractPart::TypeDefinition(td) => {
                let id = self.push("TypeDefinition", Class::CPart, PtRef::CPart(p), se, "Contract.part", Some(parent));
                let pt::TypeDefinition { loc: _, name: _, ty } = &**td;
                self.expr(ty, id, "TypeDef.ty");
            }
            pt::ContractPart::StraySemicolon(_loc) => {
                self.push("StraySemicolon", Class::CPart, PtRef::CPart(p), se, "Contract.part", Some(parent));
            }
            pt::ContractPart::Using(u) => {
                let id = self.push("Using", Class::CPart, PtRef::CPart(p), se, "Contract.part", Some(parent));
                self.using(u, id);
            }
        }
    }

    fn struct_def(&mut self, sd: &'a pt::StructDefinition, id: usize) {
        let pt::StructDefinition { loc: _, name: _, fields } = sd;
        for f in fields {
            self.var_decl(f, id, "Struct.field");
        }
    }

    fn var_decl(&mut self, d: &'a pt::VariableDeclaration, parent: usize, slot: &'static str) {
        let pt::VariableDeclaration { loc, ty, storage, name: _ } = d;
        match storage {
            None => {}
            Some(pt::StorageLocation::Memory(_)) | Some(pt::StorageLocation::Storage(_)) | Some(pt::StorageLocation::Calldata(_)) => {}
        }
        let id = self.push("aux:VariableDeclaration", Class::Aux, PtRef::VarDecl(d), loc_se(loc), slot, Some(parent));
        self.expr(ty, id, "VarDecl.ty");
    }

    fn event_def(&mut self, ed: &'a pt::EventDefinition, id: usize) {
        let pt::EventDefinition { loc: _, name: _, fields, anonymous: _ } = ed;
        for f in fields {
            let pt::EventParameter { ty, loc, indexed: _, name: _ } = f;
            let a = self.push("aux:EventParameter", Class::Aux, PtRef::EventParam(f), loc_se(loc), "Event.field", Some(id));
            self.expr(ty, a, "EventParam.ty");
        }
    }

    fn error_def(&mut self, ed: &'a pt::ErrorDefinition, id: usize) {
        let pt::ErrorDefinition { loc: _, name: _, fields } = ed;
        for f in fields {
            let pt::ErrorParameter { ty, loc, name: _ } = f;
            let a = self.push("aux:ErrorParameter", Class::Aux, PtRef::ErrorParam(f), loc_se(loc), "Error.field", Some(id));
            self.expr(ty, a, "ErrorParam.ty");
        }
    }

    fn using(&mut self, u: &'a pt::Using, id: usize) {
        let pt::Using { loc: _, list, ty, global: _ } = u;
        match list {
            pt::UsingList::Library(_) | pt::UsingList::Functions(_) => {}
        }
        if let Some(ty) = ty {
            self.expr(ty, id, "Using.ty");
        }
    }

    fn var_def(&mut self, vd: &'a pt::VariableDefinition, id: usize) {
        let pt::VariableDefinition { loc: _, ty, attrs, name: _, initializer } = vd;
        self.expr(ty, id, "VarDef.ty");
        for a in attrs {
            match a {
                pt::VariableAttribute::Visibility(v) => match v {
                    pt::Visibility::External(_) | pt::Visibility::Public(_) | pt::Visibility::Internal(_) | pt::Visibility::Private(_) => {}
                },
                pt::VariableAttribute::Constant(_) | pt::VariableAttribute::Immutable(_) | pt::VariableAttribute::Override(_, _) => {}
            }
        }
        if let Some(init) = initializer {
            self.expr(init, id, "VarDef.init");
        }
    }

    fn func_def(&mut self, fd: &'a pt::FunctionDefinition, parent: usize) {
        let pt::FunctionDefinition { loc, ty, name: _, name_loc: _, params, attributes, return_not_returns: _, returns, body } = fd;
        match ty {
            pt::FunctionTy::Constructor | pt::FunctionTy::Function | pt::FunctionTy::Fallback | pt::FunctionTy::Receive | pt::FunctionTy::Modifier => {}
        }
        let id = self.push("aux:Function", Class::Aux, PtRef::Func(fd), loc_se(loc), "Func.def", Some(parent));
        self.param_list(params, id, "Func.param");
        for a in attributes {
            self.fn_attr(a, id, "Func.attr");
        }
        self.param_list(returns, id, "Func.return");
        if let Some(b) = body {
            self.stmt(b, id, "Func.body");
        }
    }

    fn param_list(&mut self, params: &'a pt::ParameterList, parent: usize, slot: &'static str) {
        for (_loc, p) in params {
            if let Some(p) = p {
                self.param(p, parent, slot);
            }
        }
    }

    fn param(&mut self, p: &'a pt::Parameter, parent: usize, slot: &'static str) {
        let pt::Parameter { loc, ty, storage, name: _ } = p;
        match storage {
            None => {}
            Some(pt::StorageLocation::Memory(_)) | Some(pt::StorageLocation::Storage(_)) | Some(pt::StorageLocation::Calldata(_)) => {}
        }
        let id = self.push("aux:Parameter", Class::Aux, PtRef::Param(p), loc_se(loc), slot, Some(parent));
        self.expr(ty, id, "Param.ty");
    }

    fn fn_attr(&mut self, a: &'a pt::FunctionAttribute, parent: usize, slot: &'static str) {
        match a {
            pt::FunctionAttribute::Mutability(m) => {
                let l = match m {
                    pt::Mutability::Pure(l) | pt::Mutability::View(l) | pt::Mutability::Constant(l) | pt::Mutability::Payable(l) => l,
                };
                self.push("aux:FnAttr", Class::Aux, PtRef::FnAttr(a), loc_se(l), slot, Some(parent));
            }
            pt::FunctionAttribute::Visibility(v) => {
                let l = match v {
                    pt::Visibility::External(l) | pt::Visibility::Public(l) | pt::Visibility::Internal(l) | pt::Visibility::Private(l) => l,
                };
                let se = l.as_ref().map(loc_se).unwrap_or((0, 0));
                self.push("aux:FnAttr", Class::Aux, PtRef::FnAttr(a), se, slot, Some(parent));
            }
            pt::FunctionAttribute::Virtual(l) | pt::FunctionAttribute::Immutable(l) | pt::FunctionAttribute::Override(l, _) => {
                self.push("aux:FnAttr", Class::Aux, PtRef::FnAttr(a), loc_se(l), slot, Some(parent));
            }
            pt::FunctionAttribute::BaseOrModifier(l, base) => {
                let id = self.push("aux:FnAttr", Class::Aux, PtRef::FnAttr(a), loc_se(l), slot, Some(parent));
                self.base(base, id, "FnAttr.base");
            }
            pt::FunctionAttribute::NameValue(l, _name, value) => {
                let id = self.push("aux:FnAttr", Class::Aux, PtRef::FnAttr(a), loc_se(l), slot, Some(parent));
                self.expr(value, id, "FnAttr.value");
            }
        }
    }

    fn base(&mut self, b: &'a pt::Base, parent: usize, slot: &'static str) {
        let pt::Base { loc, name: _, args } = b;
        let id = self.push("aux:Base", Class::Aux, PtRef::Base(b), loc_se(loc), slot, Some(parent));
        if let Some(args) = args {
            for a in args {
                self.expr(a, id, "Base.arg");
            }
        }
    }

    fn named_arg(&mut self, a: &'a pt::NamedArgument, parent: usize, slot: &'static str) {
        let pt::NamedArgument { loc, name: _, expr } = a;
        let id = self.push("aux:NamedArgument", Class::Aux, PtRef::NamedArg(a), loc_se(loc), slot, Some(parent));
        self.expr(expr, id, "NamedArg.expr");
    }

    fn stmt(&mut self, s: &'a pt::Statement, parent: usize, slot: &'static str) {
        match s {
            pt::Statement::Block { loc, unchecked: _, statements } => {
                let id = self.push("Block", Class::Stmt, PtRef::Stmt(s), loc_se(loc), slot, Some(parent));
                for st in statements {
                    self.stmt(st, id, "Block.stmt");
                }
            }
            pt::Statement::Assembly { loc, dialect: _, flags: _, block: _ } => {
                // inline assembly: destructured, not descended into (excluded by the properties)
                self.push("Assembly", Class::Stmt, PtRef::Stmt(s), loc_se(loc), slot, Some(parent));
            }
            pt::Statement::Args(loc, args) => {
                let id = self.push("Args", Class::Stmt, PtRef::Stmt(s), loc_se(loc), slot, Some(parent));
                for a in args {
                    self.named_arg(a, id, "Args.arg");
                }
            }
            pt::Statement::If(loc, cond, then, els) => {
                let id = self.push("If", Class::Stmt, PtRef::Stmt(s), loc_se(loc), slot, Some(parent));
                self.expr(cond, id, "If.cond");
                self.stmt(then, id, "If.then");
                if let Some(e) = els {
                    self.stmt(e, id, "If.else");
                }
            }
            pt::Statement::While(loc, cond, body) => {
                let id = self.push("While", Class::Stmt, PtRef::Stmt(s), loc_se(loc), slot, Some(parent));
                self.expr(cond, id, "While.cond");
                self.stmt(body, id, "While.body");
            }
            pt::Statement::Expression(loc, e) => {
                let id = self.push("Expression", Class::Stmt, PtRef::Stmt(s), loc_se(loc), slot, Some(parent));
                self.expr(e, id, "ExprStmt.expr");
            }
            pt::Statement::VariableDefinition(loc, decl, init) => {
                let id = self.push("VariableDefinition", Class::Stmt, PtRef::Stmt(s), loc_se(loc), slot, Some(parent));
                self.var_decl(decl, id, "LocalDef.decl");
                if let Some(i) = init {
                    self.expr(i, id, "LocalDef.init");
                }
            }
            pt::Statement::For(loc, init, cond, next, body) => {
                let id = self.push("For", Class::Stmt, PtRef::Stmt(s), loc_se(loc), slot, Some(parent));
                if let Some(i) = init {
                    self.stmt(i, id, "For.init");
                }
                if let Some(c) = cond {
                    self.expr(c, id, "For.cond");
                }
                if let Some(n) = next {
                    self.stmt(n, id, "For.next");
                }
                if let Some(b) = body {
                    self.stmt(b, id, "For.body");
                }
            }
            pt::Statement::DoWhile(loc, body, cond) => {
                let id = self.push("DoWhile", Class::Stmt, PtRef::Stmt(s), loc_se(loc), slot, Some(parent));
                self.stmt(body, id, "DoWhile.body");
                self.expr(cond, id, "DoWhile.cond");
            }
            pt::Statement::Continue(loc) => {
                self.push("Continue", Class::Stmt, PtRef::Stmt(s), loc_se(loc), slot, Some(parent));
            }
            pt::Statement::Break(loc) => {
                self.push("Break", Class::Stmt, PtRef::Stmt(s), loc_se(loc), slot, Some(parent));
            }
            pt::Statement::Return(loc, e) => {
                let id = self.push("Return", Class::Stmt, PtRef::Stmt(s), loc_se(loc), slot, Some(parent));
                if let Some(e) = e {
                    self.expr(e, id, "Return.expr");
                }
            }
            pt::Statement::Revert(loc, _path, args) => {
                let id = self.push("Revert", Class::Stmt, PtRef::Stmt(s), loc_se(loc), slot, Some(parent));
                for a in args {
                    self.expr(a, id, "Revert.arg");
                }
            }
            pt::Statement::RevertNamedArgs(loc, _path, args) => {
                let id = self.push("RevertNamedArgs", Class::Stmt, PtRef::Stmt(s), loc_se(loc), slot, Some(parent));
                for a in args {
                    self.named_arg(a, id, "RevertNamed.arg");
                }
            }
            pt::Statement::Emit(loc, e) => {
                let id = self.push("Emit", Class::Stmt, PtRef::Stmt(s), loc_se(loc), slot, Some(parent));
                self.expr(e, id, "Emit.expr");
            }
            pt::Statement::Try(loc, e, returns, clauses) => {
                let id = self.push("Try", Class::Stmt, PtRef::Stmt(s), loc_se(loc), slot, Some(parent));
                self.expr(e, id, "Try.expr");
                if let Some((params, block)) = returns {
                    self.param_list(params, id, "Try.return");
                    self.stmt(block, id, "Try.block");
                }
                for c in clauses {
                    match c {
                        pt::CatchClause::Simple(l, param, block) => {
                            let cid = self.push("aux:CatchClause", Class::Aux, PtRef::Catch(c), loc_se(l), "Try.catch", Some(id));
                            if let Some(p) = param {
                                self.param(p, cid, "Catch.param");
                            }
                            self.stmt(block, cid, "Catch.block");
                        }
                        pt::CatchClause::Named(l, _name, param, block) => {
                            let cid = self.push("aux:CatchClause", Class::Aux, PtRef::Catch(c), loc_se(l), "Try.catch", Some(id));
                            self.param(param, cid, "Catch.param");
                            self.stmt(block, cid, "Catch.block");
                        }
                    }
                }
            }
        }
    }

    fn unary(&mut self, kind: &'static str, e: &'a pt::Expression, l: &pt::Loc, a: &'a pt::Expression, parent: usize, slot: &'static str) {
        let id = self.push(kind, Class::Expr, PtRef::Expr(e), loc_se(l), slot, Some(parent));
        self.expr(a, id, "Unary.operand");
    }

    fn binary(
        &mut self,
        kind: &'static str,
        e: &'a pt::Expression,
        l: &pt::Loc,
        a: &'a pt::Expression,
        b: &'a pt::Expression,
        parent: usize,
        slot: &'static str,
    ) {
        let id = self.push(kind, Class::Expr, PtRef::Expr(e), loc_se(l), slot, Some(parent));
        self.expr(a, id, "Binary.left");
        self.expr(b, id, "Binary.right");
    }

    fn leaf(&mut self, kind: &'static str, e: &'a pt::Expression, l: &pt::Loc, parent: usize, slot: &'static str) {
        self.push(kind, Class::Expr, PtRef::Expr(e), loc_se(l), slot, Some(parent));
    }

    fn expr(&mut self, e: &'a pt::Expression, parent: usize, slot: &'static str) {
        use pt::Expression as E;
        match e {
            E::PostIncrement(l, a) => self.unary("PostIncrement", e, l, a, parent, slot),
            E::PostDecrement(l, a) => self.unary("PostDecrement", e, l, a, parent, slot),
            E::New(l, a) => self.unary("New", e, l, a, parent, slot),
            E::ArraySubscript(l, base, index) => {
                let id = self.push("ArraySubscript", Class::Expr, PtRef::Expr(e), loc_se(l), slot, Some(parent));
                self.expr(base, id, "Subscript.base");
                if let Some(i) = index {
                    self.expr(i, id, "Subscript.index");
                }
            }
            E::ArraySlice(l, base, lo, hi) => {
                let id = self.push("ArraySlice", Class::Expr, PtRef::Expr(e), loc_se(l), slot, Some(parent));
                self.expr(base, id, "Slice.base");
                if let Some(x) = lo {
                    self.expr(x, id, "Slice.lo");
                }
                if let Some(x) = hi {
                    self.expr(x, id, "Slice.hi");
                }
            }
            E::Parenthesis(l, a) => {
                let id = self.push("Parenthesis", Class::Expr, PtRef::Expr(e), loc_se(l), slot, Some(parent));
                self.expr(a, id, "Paren.inner");
            }
            E::MemberAccess(l, obj, _member) => {
                let id = self.push("MemberAccess", Class::Expr, PtRef::Expr(e), loc_se(l), slot, Some(parent));
                self.expr(obj, id, "Member.object");
            }
            E::FunctionCall(l, callee, args) => {
                let id = self.push("FunctionCall", Class::Expr, PtRef::Expr(e), loc_se(l), slot, Some(parent));
                self.expr(callee, id, "Call.callee");
                for a in args {
                    self.expr(a, id, "Call.arg");
                }
            }
            E::FunctionCallBlock(l, callee, block) => {
                let id = self.push("FunctionCallBlock", Class::Expr, PtRef::Expr(e), loc_se(l), slot, Some(parent));
                self.expr(callee, id, "CallBlock.callee");
                self.stmt(block, id, "CallBlock.block");
            }
            E::NamedFunctionCall(l, callee, args) => {
                let id = self.push("NamedFunctionCall", Class::Expr, PtRef::Expr(e), loc_se(l), slot, Some(parent));
                self.expr(callee, id, "NamedCall.callee");
                for a in args {
                    self.named_arg(a, id, "NamedCall.arg");
                }
            }
            E::Not(l, a) => self.unary("Not", e, l, a, parent, slot),
            E::Complement(l, a) => self.unary("Complement", e, l, a, parent, slot),
            E::Delete(l, a) => self.unary("Delete", e, l, a, parent, slot),
            E::PreIncrement(l, a) => self.unary("PreIncrement", e, l, a, parent, slot),
            E::PreDecrement(l, a) => self.unary("PreDecrement", e, l, a, parent, slot),
            E::UnaryPlus(l, a) => self.unary("UnaryPlus", e, l, a, parent, slot),
            E::UnaryMinus(l, a) => self.unary("UnaryMinus", e, l, a, parent, slot),
            E::Power(l, a, b) => self.binary("Power", e, l, a, b, parent, slot),
            E::Multiply(l, a, b) => self.binary("Multiply", e, l, a, b, parent, slot),
            E::Divide(l, a, b) => self.binary("Divide", e, l, a, b, parent, slot),
            E::Modulo(l, a, b) => self.binary("Modulo", e, l, a, b, parent, slot),
            E::Add(l, a, b) => self.binary("Add", e, l, a, b, parent, slot),
            E::Subtract(l, a, b) => self.binary("Subtract", e, l, a, b, parent, slot),
            E::ShiftLeft(l, a, b) => self.binary("ShiftLeft", e, l, a, b, parent, slot),
            E::ShiftRight(l, a, b) => self.binary("ShiftRight", e, l, a, b, parent, slot),
            E::BitwiseAnd(l, a, b) => self.binary("BitwiseAnd", e, l, a, b, parent, slot),
            E::BitwiseXor(l, a, b) => self.binary("BitwiseXor", e, l, a, b, parent, slot),
            E::BitwiseOr(l, a, b) => self.binary("BitwiseOr", e, l, a, b, parent, slot),
            E::Less(l, a, b) => self.binary("Less", e, l, a, b, parent, slot),
            E::More(l, a, b) => self.binary("More", e, l, a, b, parent, slot),
            E::LessEqual(l, a, b) => self.binary("LessEqual", e, l, a, b, parent, slot),
            E::MoreEqual(l, a, b) => self.binary("MoreEqual", e, l, a, b, parent, slot),
            E::Equal(l, a, b) => self.binary("Equal", e, l, a, b, parent, slot),
            E::NotEqual(l, a, b) => self.binary("NotEqual", e, l, a, b, parent, slot),
            E::And(l, a, b) => self.binary("And", e, l, a, b, parent, slot),
            E::Or(l, a, b) => self.binary("Or", e, l, a, b, parent, slot),
            E::Ternary(l, c, a, b) => {
                let id = self.push("Ternary", Class::Expr, PtRef::Expr(e), loc_se(l), slot, Some(parent));
                self.expr(c, id, "Ternary.cond");
                self.expr(a, id, "Ternary.then");
                self.expr(b, id, "Ternary.else");
            }
            E::Assign(l, a, b) => self.binary("Assign", e, l, a, b, parent, slot),
            E::AssignOr(l, a, b) => self.binary("AssignOr", e, l, a, b, parent, slot),
            E::AssignAnd(l, a, b) => self.binary("AssignAnd", e, l, a, b, parent, slot),
            E::AssignXor(l, a, b) => self.binary("AssignXor", e, l, a, b, parent, slot),
            E::AssignShiftLeft(l, a, b) => self.binary("AssignShiftLeft", e, l, a, b, parent, slot),
            E::AssignShiftRight(l, a, b) => self.binary("AssignShiftRight", e, l, a, b, parent, slot),
            E::AssignAdd(l, a, b) => self.binary("AssignAdd", e, l, a, b, parent, slot),
            E::AssignSubtract(l, a, b) => self.binary("AssignSubtract", e, l, a, b, parent, slot),
            E::AssignMultiply(l, a, b) => self.binary("AssignMultiply", e, l, a, b, parent, slot),
            E::AssignDivide(l, a, b) => self.binary("AssignDivide", e, l, a, b, parent, slot),
            E::AssignModulo(l, a, b) => self.binary("AssignModulo", e, l, a, b, parent, slot),
            E::BoolLiteral(l, _v) => self.leaf("BoolLiteral", e, l, parent, slot),
            E::NumberLiteral(l, _i, _x) => self.leaf("NumberLiteral", e, l, parent, slot),
            E::RationalNumberLiteral(l, _i, _f, _x) => self.leaf("RationalNumberLiteral", e, l, parent, slot),
            E::HexNumberLiteral(l, _v) => self.leaf("HexNumberLiteral", e, l, parent, slot),
            E::StringLiteral(v) => {
                let s = v.first().map(|x| loc_se(&x.loc).0).unwrap_or(0);
                let en = v.last().map(|x| loc_se(&x.loc).1).unwrap_or(0);
                self.push("StringLiteral", Class::Expr, PtRef::Expr(e), (s, en), slot, Some(parent));
            }
            E::Type(l, ty) => {
                let id = self.push("Type", Class::Expr, PtRef::Expr(e), loc_se(l), slot, Some(parent));
                match ty {
                    pt::Type::Address
                    | pt::Type::AddressPayable
                    | pt::Type::Payable
                    | pt::Type::Bool
                    | pt::Type::String
                    | pt::Type::Int(_)
                    | pt::Type::Uint(_)
                    | pt::Type::Bytes(_)
                    | pt::Type::Rational
                    | pt::Type::DynamicBytes => {}
                    pt::Type::Mapping(_l, k, v) => {
                        self.expr(k, id, "Mapping.key");
                        self.expr(v, id, "Mapping.value");
                    }
                    pt::Type::Function { params, attributes, returns } => {
                        self.param_list(params, id, "FnType.param");
                        for a in attributes {
                            self.fn_attr(a, id, "FnType.attr");
                        }
                        if let Some((rparams, rattrs)) = returns {
                            self.param_list(rparams, id, "FnType.return");
                            for a in rattrs {
                                self.fn_attr(a, id, "FnType.retattr");
                            }
                        }
                    }
                }
            }
            E::HexLiteral(v) => {
                let s = v.first().map(|x| loc_se(&x.loc).0).unwrap_or(0);
                let en = v.last().map(|x| loc_se(&x.loc).1).unwrap_or(0);
                self.push("HexLiteral", Class::Expr, PtRef::Expr(e), (s, en), slot, Some(parent));
            }
            E::AddressLiteral(l, _v) => self.leaf("AddressLiteral", e, l, parent, slot),
            E::Variable(id) => {
                let pt::Identifier { loc, name: _ } = id;
                self.leaf("Variable", e, loc, parent, slot)
            }
            E::List(l, params) => {
                let id = self.push("List", Class::Expr, PtRef::Expr(e), loc_se(l), slot, Some(parent));
                self.param_list(params, id, "List.param");
            }
            E::ArrayLiteral(l, elems) => {
                let id = self.push("ArrayLiteral", Class::Expr, PtRef::Expr(e), loc_se(l), slot, Some(parent));
                for x in elems {
                    self.expr(x, id, "ArrayLit.elem");
                }
            }
            E::Unit(l, a, u) => {
                match u {
                    pt::Unit::Seconds(_)
                    | pt::Unit::Minutes(_)
                    | pt::Unit::Hours(_)
                    | pt::Unit::Days(_)
                    | pt::Unit::Weeks(_)
                    | pt::Unit::Wei(_)
                    | pt::Unit::Gwei(_)
                    | pt::Unit::Ether(_) => {}
                }
                let id = self.push("Unit", Class::Expr, PtRef::Expr(e), loc_se(l), slot, Some(parent));
                self.expr(a, id, "Unit.operand");
            }
            E::This(l) => self.leaf("This", e, l, parent, slot),
        }
    }

    // ---------------------------------------------------------------- queries

    pub fn is_real(&self, i: usize) -> bool {
        self.nodes[i].class != Class::Aux
    }

    /// Indices of the subtree rooted at `i`, in pre-order (contiguous by construction).
    pub fn subtree(&self, i: usize) -> std::ops::Range<usize> {
        i..self.nodes[i].sub_end
    }

    pub fn ancestors(&self, i: usize) -> Vec<usize> {
        let mut v = Vec::new();
        let mut p = self.nodes[i].parent;
        while let Some(q) = p {
            v.push(q);
            p = self.nodes[q].parent;
        }
        v
    }

    pub fn expr_at(&self, i: usize) -> Option<&'a pt::Expression> {
        match self.nodes[i].pt {
            PtRef::Expr(e) => Some(e),
            _ => None,
        }
    }

    pub fn stmt_at(&self, i: usize) -> Option<&'a pt::Statement> {
        match self.nodes[i].pt {
            PtRef::Stmt(s) => Some(s),
            _ => None,
        }
    }

    pub fn func_at(&self, i: usize) -> Option<&'a pt::FunctionDefinition> {
        match self.nodes[i].pt {
            PtRef::Func(f) => Some(f),
            _ => None,
        }
    }

    /// Innermost enclosing function definition (aux:Function node index), if any.
    pub fn enclosing_func(&self, i: usize) -> Option<usize> {
        self.ancestors(i).into_iter().find(|&a| self.nodes[a].kind == "aux:Function")
    }

    /// Innermost enclosing contract definition node index, if any.
    pub fn enclosing_contract(&self, i: usize) -> Option<usize> {
        self.ancestors(i).into_iter().find(|&a| self.nodes[a].kind == "ContractDefinition")
    }
}

pub fn part_loc(p: &pt::SourceUnitPart) -> (usize, usize) {
    match p {
        pt::SourceUnitPart::ContractDefinition(d) => loc_se(&d.loc),
        pt::SourceUnitPart::PragmaDirective(l, _, _) => loc_se(l),
        pt::SourceUnitPart::ImportDirective(i) => match i {
            pt::Import::Plain(_, l) | pt::Import::GlobalSymbol(_, _, l) | pt::Import::Rename(_, _, l) => loc_se(l),
        },
        pt::SourceUnitPart::EnumDefinition(d) => loc_se(&d.loc),
        pt::SourceUnitPart::StructDefinition(d) => loc_se(&d.loc),
        pt::SourceUnitPart::EventDefinition(d) => loc_se(&d.loc),
        pt::SourceUnitPart::ErrorDefinition(d) => loc_se(&d.loc),
        pt::SourceUnitPart::FunctionDefinition(d) => loc_se(&d.loc),
        pt::SourceUnitPart::VariableDefinition(d) => loc_se(&d.loc),
        pt::SourceUnitPart::TypeDefinition(d) => loc_se(&d.loc),
        pt::SourceUnitPart::Using(d) => loc_se(&d.loc),
        pt::SourceUnitPart::StraySemicolon(l) => loc_se(l),
    }
}

pub fn cpart_loc(p: &pt::ContractPart) -> (usize, usize) {
    match p {
        pt::ContractPart::StructDefinition(d) => loc_se(&d.loc),
        pt::ContractPart::EventDefinition(d) => loc_se(&d.loc),
        pt::ContractPart::EnumDefinition(d) => loc_se(&d.loc),
        pt::ContractPart::ErrorDefinition(d) => loc_se(&d.loc),
        pt::ContractPart::VariableDefinition(d) => loc_se(&d.loc),
        pt::ContractPart::FunctionDefinition(d) => loc_se(&d.loc),
        pt::ContractPart::TypeDefinition(d) => loc_se(&d.loc),
        pt::ContractPart::StraySemicolon(l) => loc_se(l),
        pt::ContractPart::Using(d) => loc_se(&d.loc),
    }
}
