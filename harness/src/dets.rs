//! The 30 detectors, addressed by their documented names through solstat's public API only.

use solstat::analyzer::optimizations::{analyze_for_optimization, str_to_optimization, Optimization};
use solstat::analyzer::qa::{analyze_for_qa, str_to_qa, QualityAssurance};
use solstat::analyzer::vulnerabilities::{analyze_for_vulnerability, str_to_vulnerability, Vulnerability};
use std::collections::BTreeSet;

pub const OPT_NAMES: &[&str] = &[
    "address_balance",
    "address_zero",
    "assign_update_array_value",
    "bool_equals_bool",
    "cache_array_length",
    "constant_variables",
    "immutable_variables",
    "increment_decrement",
    "memory_to_calldata",
    "multiple_require",
    "optimal_comparison",
    "pack_storage_variables",
    "pack_struct_variables",
    "payable_function",
    "private_constant",
    "safe_math_pre_080",
    "safe_math_post_080",
    "shift_math",
    "short_revert_string",
    "solidity_keccak256",
    "solidity_math",
    "sstore",
    "string_errors",
];
pub const VULN_NAMES: &[&str] = &["unsafe_erc20_operation", "unprotected_selfdestruct", "divide_before_multiply", "floating_pragma"];
pub const QA_NAMES: &[&str] = &["constructor_order", "private_vars_leading_underscore", "private_func_leading_underscore"];

#[derive(Clone, Copy, Debug, PartialEq, Eq, Hash)]
pub enum Det {
    Opt(Optimization),
    Vuln(Vulnerability),
    Qa(QualityAssurance),
}

#[derive(Clone, Debug)]
pub struct Detector {
    pub name: &'static str,
    pub det: Det,
}

pub fn all() -> Vec<Detector> {
    let mut v = Vec::new();
    for n in OPT_NAMES {
        if let Ok(o) = crate::util::guarded(|| str_to_optimization(n)) {
            v.push(Detector { name: n, det: Det::Opt(o) });
        }
    }
    for n in VULN_NAMES {
        if let Ok(o) = crate::util::guarded(|| str_to_vulnerability(n)) {
            v.push(Detector { name: n, det: Det::Vuln(o) });
        }
    }
    for n in QA_NAMES {
        if let Ok(o) = crate::util::guarded(|| str_to_qa(n)) {
            v.push(Detector { name: n, det: Det::Qa(o) });
        }
    }
    v
}

pub fn by_names(names: &[&str]) -> Vec<Detector> {
    all().into_iter().filter(|d| names.contains(&d.name)).collect()
}

/// One real detector call (may panic; callers wrap it in `guarded`).
pub fn run(d: &Detector, src: &str, file_no: usize) -> BTreeSet<i32> {
    match d.det {
        Det::Opt(o) => analyze_for_optimization(src, file_no, o),
        Det::Vuln(v) => analyze_for_vulnerability(src, file_no, v),
        Det::Qa(q) => analyze_for_qa(src, file_no, q),
    }
}

pub fn run_guarded(d: &Detector, src: &str, file_no: usize) -> Result<BTreeSet<i32>, String> {
    let id = std::thread::current().id();
    if let Ok(mut w) = WATCH.lock() {
        w.push((id, std::time::Instant::now(), d.name, src.to_string()));
    }
    let r = crate::util::guarded(|| run(d, src, file_no));
    if let Ok(mut w) = WATCH.lock() {
        w.retain(|e| e.0 != id);
    }
    r
}

static WATCH: std::sync::Mutex<Vec<(std::thread::ThreadId, std::time::Instant, &'static str, String)>> = std::sync::Mutex::new(Vec::new());

/// Start a watchdog thread: when one detector call has not returned within `secs` seconds,
/// `on_hang(detector, source)` is called (it normally reports and ends the process).
pub fn start_watchdog(secs: u64, on_hang: fn(&str, &str)) {
    std::thread::spawn(move || loop {
        std::thread::sleep(std::time::Duration::from_millis(500));
        let stuck = match WATCH.lock() {
            Ok(w) => w.iter().find(|e| e.1.elapsed().as_secs() >= secs).map(|e| (e.2, e.3.clone())),
            Err(_) => None,
        };
        if let Some((d, s)) = stuck {
            on_hang(d, &s);
            // on_hang returned: the call was confirmed to end (slow, not hanging); give it a new deadline
            if let Ok(mut w) = WATCH.lock() {
                for e in w.iter_mut() {
                    if e.2 == d && e.3 == s {
                        e.1 = std::time::Instant::now();
                    }
                }
            }
        }
    });
}

/// `mc one-call <detector> <file>`: one detector call on the text of `file` in a process of its own
/// (exit 0 when it returns or panics, i.e. when it ends; used to confirm a hang without any other load)
pub fn one_call(det: &str, file: &str) -> i32 {
    std::env::set_var("MC_NO_WATCHDOG", "1");
    crate::util::quiet();
    let src = match std::fs::read_to_string(file) {
        Ok(s) => s,
        Err(_) => return 2,
    };
    let d = match by_names(&[det]).into_iter().next() {
        Some(d) => d,
        None => return 2,
    };
    let _ = crate::util::guarded(|| run(&d, &src, 0));
    0
}

/// Does one call of `det` on `src`, alone in a fresh process, end within `secs` seconds?
/// None = the confirmation itself could not be carried out.
pub fn ends_in_fresh_process(det: &str, src: &str, secs: u64) -> Option<bool> {
    let me = std::env::current_exe().ok()?;
    let f = std::env::temp_dir().join(format!("mc-hang-{}-{}.sol", std::process::id(), crate::util::fnv(src)));
    std::fs::write(&f, src).ok()?;
    let mut child = std::process::Command::new(&me).args(["one-call", det, &f.to_string_lossy()]).stdout(std::process::Stdio::null()).stderr(std::process::Stdio::null()).spawn().ok()?;
    let t0 = std::time::Instant::now();
    let r = loop {
        match child.try_wait() {
            Ok(Some(_)) => break Some(true),
            Ok(None) => {
                if t0.elapsed().as_secs() > secs {
                    let _ = child.kill();
                    let _ = child.wait();
                    break Some(false);
                }
                std::thread::sleep(std::time::Duration::from_millis(20));
            }
            Err(_) => break None,
        }
    };
    let _ = std::fs::remove_file(&f);
    r
}

/// Default reaction outside C04: a hanging detector is not this check's property; stop as a
/// machinery error instead of running forever.
pub fn hang_is_machinery(det: &str, src: &str) {
    // load on the machine must not look like a hang: the same call, alone in a fresh process, decides; if it ends there, the
    // call in this process was merely starved and the watchdog gives it a new deadline
    if ends_in_fresh_process(det, src, 120) == Some(true) {
        eprintln!("note: a call of {} exceeded the watchdog limit in this process but ends at once in a fresh one (machine under load); continuing", det);
        return;
    }
    eprintln!("MACHINERY: detector {} did not return within the watchdog limit on input {:?}", det, src);
    std::process::exit(2);
}

pub fn unit_test_for(d: &Detector, src: &str, what: &str) -> String {
    let call = match d.det {
        Det::Opt(_) => format!(
            "solstat::analyzer::optimizations::analyze_for_optimization(src, 0, solstat::analyzer::optimizations::str_to_optimization(\"{}\"))",
            d.name
        ),
        Det::Vuln(_) => format!(
            "solstat::analyzer::vulnerabilities::analyze_for_vulnerability(src, 0, solstat::analyzer::vulnerabilities::str_to_vulnerability(\"{}\"))",
            d.name
        ),
        Det::Qa(_) => format!("solstat::analyzer::qa::analyze_for_qa(src, 0, solstat::analyzer::qa::str_to_qa(\"{}\"))", d.name),
    };
    format!("#[test]\nfn replay() {{\n    let src = {:?};\n    let lines = {};\n    // {}\n    println!(\"{{:?}}\", lines);\n}}\n", src, call, what)
}
