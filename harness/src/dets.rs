//! The 30 detectors, addressed by their documented names through solstat's public API only.

use solstat::analyzer::optimizations::{analyze_for_optimization, str_to_optimization, Optimization};
use solstat::analyzer::qa::{analyze_for_qa, str_to_qa, QualityAssurance};
use solstat::analyzer::vulnerabilities::{analyze_for_vulnerability, str_to_vulnerability, Vulnerability};
use std::collections::BTreeSet;

pub const OPT_NAMES: &[&str] = &[
    "address_balance",
    "address_zero",
    "assign_update_array_value",
    "bool_equals_bool",
    "cache_array_length",
    "constant_variables",
    "immutable_variables",
    "increment_decrement",
    "memory_to_calldata",
    "multiple_require",
    "optimal_comparison",
    "pack_storage_variables",
    "pack_struct_variables",
    "payable_function",
    "private_constant",
    "safe_math_pre_080",
    "safe_math_post_080",
    "shift_math",
    "short_revert_string",
    "solidity_keccak256",
    "solidity_math",
    "sstore",
    "string_errors",
];
pub const VULN_NAMES: &[&str] = &["unsafe_erc20_operation", "unprotected_selfdestruct", "divide_before_multiply", "floating_pragma"];
pub const QA_NAMES: &[&str] = &["constructor_order", "private_vars_leading_underscore", "private_func_leading_underscore"];

#[derive(Clone, Copy, Debug, PartialEq, Eq, Hash)]
pub enum Det {
    Opt(Optimization),
    Vuln(Vulnerability),
    Qa(QualityAssurance),
}

#[derive(Clone, Debug)]
pub struct Detector {
    pub name: &'static str,
    pub det: Det,
}

pub fn all() -> Vec<Detector> {
    let mut v = Vec::new();
    for n in OPT_NAMES {
        if let Ok(o) = crate::util::guarded(|| str_to_optimization(n)) {
            v.push(Detector { name: n, det: Det::Opt(o) });
        }
    }
    for n in VULN_NAMES {
        if let Ok(o) = crate::util::guarded(|| str_to_vulnerability(n)) {
            v.push(Detector { name: n, det: Det::Vuln(o) });
        }
    }
    for n in QA_NAMES {
        if let Ok(o) = crate::util::guarded(|| str_to_qa(n)) {
            v.push(Detector { name: n, det: Det::Qa(o) });
        }
    }
    v
}

pub fn by_names(names: &[&str]) -> Vec<Detector> {
    all().into_iter().filter(|d| names.contains(&d.name)).collect()
}

/// One real detector call (may panic; callers wrap it in `guarded`).
pub fn run(d: &Detector, src: &str, file_no: usize) -> BTreeSet<i32> {
    match d.det {
        Det::Opt(o) => analyze_for_optimization(src, file_no, o),
        Det::Vuln(v) => analyze_for_vulnerability(src, file_no, v),
        Det::Qa(q) => analyze_for_qa(src, file_no, q),
    }
}

pub fn run_guarded(d: &Detector, src: &str, file_no: usize) -> Result<BTreeSet<i32>, String> {
    let id = std::thread::current().id();
    if let Ok(mut w) = WATCH.lock() {
        w.push((id, std::time::Instant::now(), d.name, src.to_string()));
    }
    let r = crate::util::guarded(|| run(d, src, file_no));
    if let Ok(mut w) = WATCH.lock() {
        w.retain(|e| e.0 != id);
    }
    r
}

static WATCH: std::sync::Mutex<Vec<(std::thread::ThreadId, std::time::Instant, &'static str, String)>> = std::sync::Mutex::new(Vec::new());

/// Start a watchdog thread: when one detector call has not returned within `secs` seconds,
/// `on_hang(detector, source)` is called (it normally reports and ends the process).
pub fn start_watchdog(secs: u64, on_hang: fn(&str, &str)) {
    std::thread::spawn(move || loop {
        std::thread::sleep(std::time::Duration::from_millis(500));
        let stuck = match WATCH.lock() {
            Ok(w) => w.iter().find(|e| e.1.elapsed().as_secs() >= secs).map(|e| (e.2, e.3.clone())),
            Err(_) => None,
        };
        if let Some((d, s)) = stuck {
            on_hang(d, &s);
        }
    });
}

/// Default reaction outside C04: a hanging detector is not this check's property; stop as a
/// machinery error instead of running forever.
pub fn hang_is_machinery(det: &str, src: &str) {
    eprintln!("MACHINERY: detector {} did not return within the watchdog limit on input {:?}", det, src);
    std::process::exit(2);
}

pub fn unit_test_for(d: &Detector, src: &str, what: &str) -> String {
    let call = match d.det {
        Det::Opt(_) => format!(
            "solstat::analyzer::optimizations::analyze_for_optimization(src, 0, solstat::analyzer::optimizations::str_to_optimization(\"{}\"))",
            d.name
        ),
        Det::Vuln(_) => format!(
            "solstat::analyzer::vulnerabilities::analyze_for_vulnerability(src, 0, solstat::analyzer::vulnerabilities::str_to_vulnerability(\"{}\"))",
            d.name
        ),
        Det::Qa(_) => format!("solstat::analyzer::qa::analyze_for_qa(src, 0, solstat::analyzer::qa::str_to_qa(\"{}\"))", d.name),
    };
    format!("#[test]\nfn replay() {{\n    let src = {:?};\n    let lines = {};\n    // {}\n    println!(\"{{:?}}\", lines);\n}}\n", src, call, what)
}
