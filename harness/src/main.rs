use solstat_mc::corpus::Tier;
use solstat_mc::*;

fn main() {
    let args: Vec<String> = std::env::args().collect();
    if args.len() < 2 {
        eprintln!("usage: mc <Cnn> [quick|thorough] | mc replay <file>");
        std::process::exit(2);
    }
    let tier_s = args.get(2).cloned().or_else(|| std::env::var("VERIF_TIER").ok()).unwrap_or_else(|| "quick".to_string());
    let tier = if tier_s == "thorough" { Tier::Thorough } else { Tier::Quick };
    let code = match args[1].as_str() {
        "replay" => replay::run(args.get(2).map(|s| s.as_str()).unwrap_or("")),
        "C01" => c01::run(tier),
        "C02" => c02::run(tier),
        "C03" => fsx::c03(tier),
        "C04" => c04::run(tier),
        "C05" => csem::c05(tier),
        "C06" => csem::c06(tier),
        "C07" => csem::c07(tier),
        "C08" => csem::c08(tier),
        "C09" => csem::c09(tier),
        "C04-child" => c04::child(tier, args.get(3).map(|s| s.as_str()).unwrap_or("?")),
        "one-call" => dets::one_call(args.get(2).map(|s| s.as_str()).unwrap_or(""), args.get(3).map(|s| s.as_str()).unwrap_or("")),
        "C10" => c10::run(tier),
        "C11" => report::c11_c12("C11", tier),
        "C12" => report::c11_c12("C12", tier),
        "C13" => report::c13(tier),
        "C14" => binx::c14(tier),
        "C15" => c15::run(tier),
        "C15-call" => c15::child_call(args.get(2).and_then(|s| s.parse().ok()).unwrap_or(0), args.get(3).map(|s| s.as_str()).unwrap_or(""), args.get(4).and_then(|s| s.parse().ok()).unwrap_or(0)),
        "C16" => fsx::c16(tier),
        "C18" => binx::c18(tier),
        "C17" => c17::run(tier),
        "C19" => c19::run(tier),
        other => {
            eprintln!("unknown check {}", other);
            2
        }
    };
    std::process::exit(code);
}
