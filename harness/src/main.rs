use solstat_mc::*;
fn main() {
    let t0 = std::time::Instant::now();
    let c = corpus::build(corpus::Tier::Quick);
    eprintln!("generated {} distinct {} in {:?}", c.generated, c.progs.len(), t0.elapsed());
    for (f, n) in &c.families { eprintln!("  {} {}", f, n); }
    let res = util::par_map(c.progs.len(), |i| {
        let p = &c.progs[i];
        let (text, offs) = synth::render_l1(&p.toks);
        match solang_parser::parse(&text, 0) {
            Err(e) => Err(format!("PARSE {:?}", e.iter().map(|d| d.message.clone()).collect::<Vec<_>>())),
            Ok((su, _)) => { let t = rtree::RTree::convert(&su); synth::conform(p, &t, &offs).map(|_| t.nodes.iter().map(|n| (n.slot, n.kind)).collect::<Vec<_>>()) }
        }
    });
    let mut bad = 0; let mut kinds = std::collections::BTreeMap::new();
    let mut slots = std::collections::HashSet::new(); let mut pairs = std::collections::HashSet::new();
    for (i, r) in res.iter().enumerate() {
        match r { Err(e) => { bad += 1; let k = c.progs[i].tag.split(':').next().unwrap().to_string() + &e[..e.len().min(40)]; let ent = kinds.entry(k).or_insert((0usize, i)); ent.0 += 1; }
          Ok(v) => for (s,k) in v { slots.insert(*s); pairs.insert((*s,*k)); } }
    }
    eprintln!("bad {} / {}  in {:?}", bad, res.len(), t0.elapsed());
    for (k, (n, i)) in kinds.iter().take(60) { eprintln!("{} x{}\n    tag={}\n    src={}\n    err={}", k, n, c.progs[*i].tag, c.progs[*i].toks.join(" "), res[*i].as_ref().err().unwrap()); }
    for s in rtree::ALL_SLOTS { if !slots.contains(s) { eprintln!("UNVISITED SLOT {}", s); } }
    eprintln!("slots {} pairs {}", slots.len(), pairs.len());
}
