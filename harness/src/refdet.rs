//! Three-valued reference detectors (DESIGN.md sections 5.3 and 8).
//!
//! For each detector a list of *verdicts* over R-tree nodes: Must (canonical form: a report is
//! required) or May (gray: accepted either way); everything not listed is No.  Each verdict
//! carries its admissible anchor offsets and the span of the construct.  Straight transcriptions
//! of section 8 into tree queries; no code shared with /repo/src.

use crate::corpus::Corpus;
use crate::dets::{self, Detector};
use crate::ev::Violation;
use crate::rtree::{Class, PtRef, RTree};
use crate::synth;
use crate::util;
use serde_json::json;
use solang_parser::pt;
use solang_parser::pt::Expression as E;
use std::collections::{BTreeSet, HashMap, HashSet};

#[derive(Clone, Debug)]
pub struct Verdict {
    pub must: bool,
    pub anchors: Vec<usize>,
    pub span: (usize, usize),
    pub kind: &'static str,
    pub node: usize,
    pub note: &'static str,
}

fn v(t: &RTree, i: usize, must: bool, note: &'static str) -> Verdict {
    let n = &t.nodes[i];
    Verdict { must, anchors: vec![n.start], span: (n.start, n.end), kind: n.kind, node: i, note }
}

// ------------------------------------------------------------------------------ pt helpers

fn ident(e: &E) -> Option<&str> {
    match e {
        E::Variable(id) => Some(id.name.as_str()),
        _ => None,
    }
}
fn strip(e: &E) -> &E {
    match e {
        E::Parenthesis(_, inner) => strip(inner),
        _ => e,
    }
}
fn is_msg_sender(e: &E) -> bool {
    match e {
        E::MemberAccess(_, obj, m) => m.name == "sender" && ident(obj) == Some("msg"),
        _ => false,
    }
}
fn type_call<'a>(e: &'a E) -> Option<(&'a pt::Type, &'a Vec<E>)> {
    match e {
        E::FunctionCall(_, callee, args) => match &**callee {
            E::Type(_, ty) => Some((ty, args)),
            _ => None,
        },
        _ => None,
    }
}
fn all_zero_digits(s: &str) -> bool {
    !s.is_empty() && s.chars().all(|c| c == '0')
}

/// decimal digit string -> is it 2^k for some k >= 0 ?  (arbitrary size)
pub fn dec_is_pow2(digits: &str) -> Option<u32> {
    let mut d: Vec<u8> = digits.bytes().filter(|b| b.is_ascii_digit()).map(|b| b - b'0').collect();
    if d.is_empty() || d.len() != digits.len() {
        return None;
    }
    let mut k = 0u32;
    loop {
        while d.len() > 1 && d[0] == 0 {
            d.remove(0);
        }
        if d == [0] {
            return None;
        }
        if d == [1] {
            return Some(k);
        }
        if d[d.len() - 1] % 2 == 1 {
            return None;
        }
        let mut carry = 0u8;
        for x in d.iter_mut() {
            let cur = carry * 10 + *x;
            *x = cur / 2;
            carry = cur % 2;
        }
        k += 1;
    }
}

/// value of `integer e exp` as a decimal string if it is a non-negative integer
fn lit_value(integer: &str, exp: &str) -> Option<String> {
    if integer.is_empty() || !integer.chars().all(|c| c.is_ascii_digit()) {
        return None;
    }
    if exp.is_empty() {
        return Some(integer.to_string());
    }
    let e: i64 = exp.parse().ok()?;
    if e >= 0 {
        if e > 400 {
            return None;
        }
        Some(format!("{}{}", integer, "0".repeat(e as usize)))
    } else {
        let k = (-e) as usize;
        let trimmed = integer.trim_start_matches('0');
        if trimmed.is_empty() {
            return Some("0".into());
        }
        if integer.len() > k && integer[integer.len() - k..].chars().all(|c| c == '0') {
            Some(integer[..integer.len() - k].to_string())
        } else {
            None
        }
    }
}

fn has_descendant(t: &RTree, i: usize, kind: &str) -> bool {
    t.subtree(i).skip(1).any(|j| t.nodes[j].kind == kind)
}

fn child_in_slot(t: &RTree, i: usize, slot: &str) -> Option<usize> {
    t.nodes[i].children.iter().copied().find(|&c| t.nodes[c].slot == slot)
}

fn exprs<'a>(t: &'a RTree<'a>) -> impl Iterator<Item = (usize, &'a E)> + 'a {
    (0..t.nodes.len()).filter_map(move |i| t.expr_at(i).map(|e| (i, e)))
}

// ------------------------------------------------------------------------------ declarations

pub struct StateVar<'a> {
    pub name: String,
    pub node: usize,
    pub def: &'a pt::VariableDefinition,
    pub file_level: bool,
    pub contract: Option<usize>,
}

pub fn state_vars<'a>(t: &'a RTree<'a>) -> Vec<StateVar<'a>> {
    let mut out = Vec::new();
    for (i, n) in t.nodes.iter().enumerate() {
        match n.pt {
            PtRef::CPart(pt::ContractPart::VariableDefinition(d)) => {
                out.push(StateVar { name: d.name.name.clone(), node: i, def: d, file_level: false, contract: n.parent })
            }
            PtRef::Part(pt::SourceUnitPart::VariableDefinition(d)) => {
                out.push(StateVar { name: d.name.name.clone(), node: i, def: d, file_level: true, contract: None })
            }
            _ => {}
        }
    }
    out
}

/// the quantifier of C06 / C08 / C19: state-variable names are unique within the file
pub fn unique_state_var_names(text: &str) -> bool {
    match solang_parser::parse(text, 0) {
        Ok((su, _)) => {
            let t = RTree::convert(&su);
            let mut seen = HashSet::new();
            state_vars(&t).iter().all(|sv| seen.insert(sv.name.clone()))
        }
        Err(_) => false,
    }
}

fn var_is(d: &pt::VariableDefinition, f: impl Fn(&pt::VariableAttribute) -> bool) -> bool {
    d.attrs.iter().any(f)
}
fn var_constant(d: &pt::VariableDefinition) -> bool {
    var_is(d, |a| matches!(a, pt::VariableAttribute::Constant(_)))
}
fn var_immutable(d: &pt::VariableDefinition) -> bool {
    var_is(d, |a| matches!(a, pt::VariableAttribute::Immutable(_)))
}
fn var_vis(d: &pt::VariableDefinition) -> Vec<&'static str> {
    d.attrs
        .iter()
        .filter_map(|a| match a {
            pt::VariableAttribute::Visibility(pt::Visibility::Public(_)) => Some("public"),
            pt::VariableAttribute::Visibility(pt::Visibility::Private(_)) => Some("private"),
            pt::VariableAttribute::Visibility(pt::Visibility::Internal(_)) => Some("internal"),
            pt::VariableAttribute::Visibility(pt::Visibility::External(_)) => Some("external"),
            _ => None,
        })
        .collect()
}
/// elementary = a `pt::Type` other than mapping and function type
fn elementary(tye: &E) -> bool {
    match tye {
        E::Type(_, pt::Type::Mapping(..)) | E::Type(_, pt::Type::Function { .. }) => false,
        E::Type(_, _) => true,
        _ => false,
    }
}
fn type_kind(tye: &E) -> &'static str {
    match tye {
        E::Type(_, pt::Type::Mapping(..)) => "mapping",
        E::Type(_, pt::Type::Function { .. }) => "fntype",
        E::Type(_, _) => "elementary",
        _ => "other",
    }
}
fn value_type(tye: &E) -> bool {
    matches!(
        tye,
        E::Type(_, pt::Type::Uint(_))
            | E::Type(_, pt::Type::Int(_))
            | E::Type(_, pt::Type::Bool)
            | E::Type(_, pt::Type::Address)
            | E::Type(_, pt::Type::AddressPayable)
            | E::Type(_, pt::Type::Bytes(_))
    )
}

fn fn_vis(f: &pt::FunctionDefinition) -> Vec<&'static str> {
    f.attributes
        .iter()
        .filter_map(|a| match a {
            pt::FunctionAttribute::Visibility(pt::Visibility::Public(_)) => Some("public"),
            pt::FunctionAttribute::Visibility(pt::Visibility::Private(_)) => Some("private"),
            pt::FunctionAttribute::Visibility(pt::Visibility::Internal(_)) => Some("internal"),
            pt::FunctionAttribute::Visibility(pt::Visibility::External(_)) => Some("external"),
            _ => None,
        })
        .collect()
}
fn fn_payable(f: &pt::FunctionDefinition) -> bool {
    f.attributes.iter().any(|a| matches!(a, pt::FunctionAttribute::Mutability(pt::Mutability::Payable(_))))
}

/// (aux:Function node index, definition, is member of a contract-like item)
fn functions<'a>(t: &'a RTree<'a>) -> Vec<(usize, &'a pt::FunctionDefinition, bool)> {
    let mut out = Vec::new();
    for (i, n) in t.nodes.iter().enumerate() {
        if let PtRef::Func(f) = n.pt {
            let member = n.parent.map(|p| t.nodes[p].class == Class::CPart).unwrap_or(false);
            out.push((i, f, member));
        }
    }
    out
}

// ------------------------------------------------------------------------------ writes

#[derive(Clone, Debug)]
pub struct Write {
    pub node: usize,
    pub kind: &'static str,
    /// bare identifier target
    pub direct: Option<String>,
    /// variables at the root of a non-bare target (gray)
    pub rooted: Vec<String>,
    /// subscript of a bare identifier: `p[E] = ...`
    pub index_of: Option<String>,
}

fn root_vars(e: &E, out: &mut Vec<String>) {
    match e {
        E::Variable(id) => out.push(id.name.clone()),
        E::Parenthesis(_, x) => root_vars(x, out),
        E::ArraySubscript(_, b, _) => root_vars(b, out),
        E::ArraySlice(_, b, _, _) => root_vars(b, out),
        E::MemberAccess(_, o, _) => root_vars(o, out),
        E::List(_, ps) => {
            for (_, p) in ps {
                if let Some(p) = p {
                    root_vars(&p.ty, out);
                }
            }
        }
        _ => {}
    }
}

pub fn writes(t: &RTree) -> Vec<Write> {
    let mut out = Vec::new();
    for (i, e) in exprs(t) {
        let target: Option<&E> = match e {
            E::Assign(_, l, _)
            | E::AssignOr(_, l, _)
            | E::AssignAnd(_, l, _)
            | E::AssignXor(_, l, _)
            | E::AssignShiftLeft(_, l, _)
            | E::AssignShiftRight(_, l, _)
            | E::AssignAdd(_, l, _)
            | E::AssignSubtract(_, l, _)
            | E::AssignMultiply(_, l, _)
            | E::AssignDivide(_, l, _)
            | E::AssignModulo(_, l, _) => Some(l),
            E::PreIncrement(_, x) | E::PreDecrement(_, x) | E::PostIncrement(_, x) | E::PostDecrement(_, x) | E::Delete(_, x) => Some(x),
            _ => None,
        };
        if let Some(tg) = target {
            let kind = t.nodes[i].kind;
            let mut w = Write { node: i, kind, direct: None, rooted: Vec::new(), index_of: None };
            match tg {
                E::Variable(id) if kind != "Delete" => w.direct = Some(id.name.clone()),
                _ => {
                    root_vars(tg, &mut w.rooted);
                    if let E::ArraySubscript(_, b, _) = tg {
                        if let E::Variable(id) = &**b {
                            w.index_of = Some(id.name.clone());
                        }
                    }
                }
            }
            out.push(w);
        }
    }
    out
}

/// where a node sits with respect to function definitions
#[derive(Debug, Clone, Copy, PartialEq, Eq)]
pub enum Place {
    /// body of a member/free function of the given kind
    Body(pt::FunctionTy),
    /// attribute (modifier / base) arguments of a function of the given kind
    Attr(pt::FunctionTy),
    /// parameter or return type of a function
    Sig(pt::FunctionTy),
    /// base-constructor arguments in a contract header
    ContractBase,
    /// state-variable initialiser or type
    VarDef,
    Other,
}

pub fn place(t: &RTree, i: usize) -> (Place, Option<usize>) {
    let mut cur = i;
    let mut via_slot = t.nodes[i].slot;
    while let Some(p) = t.nodes[cur].parent {
        if t.nodes[p].kind == "aux:Function" {
            let f = t.func_at(p).unwrap();
            let pl = match via_slot {
                "Func.body" => Place::Body(f.ty),
                "Func.attr" => Place::Attr(f.ty),
                _ => Place::Sig(f.ty),
            };
            return (pl, Some(p));
        }
        if t.nodes[p].kind == "ContractDefinition" && via_slot == "Contract.base" {
            return (Place::ContractBase, None);
        }
        if t.nodes[p].kind == "VariableDefinition" && (t.nodes[p].class == Class::CPart || t.nodes[p].class == Class::Part) {
            return (Place::VarDef, None);
        }
        via_slot = t.nodes[p].slot;
        cur = p;
    }
    (Place::Other, None)
}

// ------------------------------------------------------------------------------ version

#[derive(Debug, Clone, PartialEq)]
pub enum Version {
    /// exactly one `pragma solidity` naming one full version
    Exact(i64, i64, i64),
    /// anything else: the property does not define the outcome
    Undefined,
}

pub fn file_version(t: &RTree) -> Version {
    let mut found: Vec<String> = Vec::new();
    for n in &t.nodes {
        if let PtRef::Part(pt::SourceUnitPart::PragmaDirective(_, name, value)) = n.pt {
            if name.name == "solidity" {
                found.push(value.string.clone());
            }
        }
    }
    if found.len() != 1 {
        return Version::Undefined;
    }
    parse_single_version(&found[0])
}

pub fn parse_single_version(s: &str) -> Version {
    let s = s.trim();
    let mut rest = s;
    for op in [">=", "^", "~", "=", ">"] {
        if let Some(r) = rest.strip_prefix(op) {
            rest = r.trim_start();
            break;
        }
    }
    let parts: Vec<&str> = rest.split('.').collect();
    if parts.len() != 3 {
        return Version::Undefined;
    }
    let mut nums = Vec::new();
    for p in parts {
        if p.is_empty() || p.len() > 9 || !p.chars().all(|c| c.is_ascii_digit()) {
            return Version::Undefined;
        }
        nums.push(p.parse::<i64>().unwrap());
    }
    Version::Exact(nums[0], nums[1], nums[2])
}

// ------------------------------------------------------------------------------ references

pub fn reference(det: &str, t: &RTree, _src: &str) -> Vec<Verdict> {
    match det {
        "address_balance" => r_address_balance(t),
        "address_zero" => r_address_zero(t),
        "bool_equals_bool" => r_bool_equals_bool(t),
        "assign_update_array_value" => r_assign_update(t),
        "cache_array_length" => r_cache_array_length(t),
        "increment_decrement" => r_increment_decrement(t),
        "multiple_require" => r_multiple_require(t),
        "optimal_comparison" => r_kinds(t, &["MoreEqual", "LessEqual"]),
        "shift_math" => r_shift_math(t),
        "solidity_keccak256" => r_keccak(t),
        "solidity_math" => r_kinds(t, &["Add", "Subtract", "Multiply", "Divide"]),
        "payable_function" => r_payable_function(t),
        "private_constant" => r_private_constant(t),
        "private_vars_leading_underscore" => r_private_vars(t),
        "private_func_leading_underscore" => r_private_func(t),
        "constructor_order" => r_constructor_order(t),
        "unsafe_erc20_operation" => r_erc20(t),
        "divide_before_multiply" => r_div_before_mul(t),
        "floating_pragma" => r_floating_pragma(t),
        "unprotected_selfdestruct" => r_selfdestruct(t),
        "constant_variables" => r_constant_variables(t),
        "immutable_variables" => r_immutable_variables(t),
        "memory_to_calldata" => r_memory_to_calldata(t),
        "sstore" => r_sstore(t),
        "safe_math_pre_080" => r_safe_math(t, true),
        "safe_math_post_080" => r_safe_math(t, false),
        "string_errors" => r_string_errors(t),
        "short_revert_string" => r_short_revert(t),
        "pack_storage_variables" => r_pack_storage(t),
        "pack_struct_variables" => r_pack_struct(t),
        _ => Vec::new(),
    }
}

fn r_kinds(t: &RTree, kinds: &[&str]) -> Vec<Verdict> {
    (0..t.nodes.len()).filter(|&i| kinds.contains(&t.nodes[i].kind)).map(|i| v(t, i, true, "kind")).collect()
}

// 8.1
fn r_address_balance(t: &RTree) -> Vec<Verdict> {
    let mut out = Vec::new();
    for (i, e) in exprs(t) {
        if let E::MemberAccess(_, obj, m) = e {
            if m.name != "balance" {
                continue;
            }
            match &**obj {
                E::FunctionCall(_, callee, args) => match &**callee {
                    E::Type(_, pt::Type::Address) if args.len() == 1 => out.push(v(t, i, true, "address(E).balance")),
                    _ => out.push(v(t, i, false, "call object")),
                },
                E::Parenthesis(..) => out.push(v(t, i, false, "parenthesised object")),
                _ => {}
            }
        }
    }
    out
}

// 8.2
fn addr0_class(e: &E) -> u8 {
    // 2 = canonical address(0); 1 = gray zero-like; 0 = no
    if let Some((pt::Type::Address, args)) = type_call(e) {
        if args.len() == 1 {
            if let E::NumberLiteral(_, i, x) = &args[0] {
                if i == "0" && x.is_empty() {
                    return 2;
                }
                if all_zero_digits(i) {
                    return 1;
                }
            }
            if let E::HexNumberLiteral(_, h) = &args[0] {
                if all_zero_digits(h.trim_start_matches("0x").trim_start_matches("0X")) || h.len() <= 2 {
                    return 1;
                }
            }
        }
        return 0;
    }
    match e {
        // the bare 40-digit zero literal is the zero address written without a conversion: gray
        E::HexNumberLiteral(_, h) if h.len() == 42 && all_zero_digits(&h[2..]) => 1,
        E::Parenthesis(_, inner) => addr0_class(inner).min(1),
        E::FunctionCall(_, callee, args) => match (&**callee, args.len()) {
            (E::Type(_, pt::Type::Payable), 1) | (E::Type(_, pt::Type::AddressPayable), 1) => addr0_class(&args[0]).min(1),
            _ => 0,
        },
        _ => 0,
    }
}
fn r_address_zero(t: &RTree) -> Vec<Verdict> {
    let mut out = Vec::new();
    for (i, e) in exprs(t) {
        match e {
            E::Equal(_, l, r) | E::NotEqual(_, l, r) => {
                let c = addr0_class(l).max(addr0_class(r));
                if c == 2 {
                    out.push(v(t, i, true, "== address(0)"));
                } else if c == 1 {
                    out.push(v(t, i, false, "zero-like"));
                }
            }
            E::Less(_, l, r) | E::More(_, l, r) | E::LessEqual(_, l, r) | E::MoreEqual(_, l, r) => {
                if addr0_class(l).max(addr0_class(r)) > 0 {
                    out.push(v(t, i, false, "ordering against address(0)"));
                }
            }
            _ => {}
        }
    }
    out
}

// 8.3
fn r_bool_equals_bool(t: &RTree) -> Vec<Verdict> {
    let mut out = Vec::new();
    for (i, e) in exprs(t) {
        if let E::Equal(_, l, r) | E::NotEqual(_, l, r) = e {
            let direct = matches!(**l, E::BoolLiteral(..)) || matches!(**r, E::BoolLiteral(..));
            let grayish = |x: &E| match x {
                E::Parenthesis(_, a) | E::Not(_, a) => matches!(strip(a), E::BoolLiteral(..)),
                _ => false,
            };
            if direct {
                out.push(v(t, i, true, "== bool literal"));
            } else if grayish(l) || grayish(r) {
                out.push(v(t, i, false, "wrapped bool literal"));
            }
        }
    }
    out
}

// 8.4
fn subscript_of<'a>(e: &'a E) -> Option<(&'a str, Option<&'a E>)> {
    if let E::ArraySubscript(_, b, idx) = e {
        if let E::Variable(id) = &**b {
            return Some((id.name.as_str(), idx.as_deref()));
        }
    }
    None
}
fn r_assign_update(t: &RTree) -> Vec<Verdict> {
    let mut out = Vec::new();
    for (i, e) in exprs(t) {
        if let E::Assign(_, l, r) = e {
            let lhs_sub = matches!(**l, E::ArraySubscript(..));
            if !lhs_sub {
                continue;
            }
            let rhs = strip(r);
            let parenthesised = !std::ptr::eq(rhs, &**r);
            let ops: Option<(&E, &E, bool)> = match rhs {
                E::Add(_, a, b)
                | E::Subtract(_, a, b)
                | E::Multiply(_, a, b)
                | E::Divide(_, a, b)
                | E::Modulo(_, a, b)
                | E::ShiftLeft(_, a, b)
                | E::ShiftRight(_, a, b)
                | E::BitwiseAnd(_, a, b)
                | E::BitwiseOr(_, a, b)
                | E::BitwiseXor(_, a, b) => Some((a, b, true)),
                E::Power(_, a, b) => Some((a, b, false)),
                _ => None,
            };
            let (a, b, canonical_op) = match ops {
                Some(x) => x,
                None => continue,
            };
            match subscript_of(l) {
                Some((id, Some(E::NumberLiteral(_, n, x)))) => {
                    let same = |o: &E| -> u8 {
                        // 2 = same array, same literal spelling; 1 = same array, same integer different exponent
                        match subscript_of(strip(o)) {
                            Some((id2, Some(E::NumberLiteral(_, n2, x2)))) if id2 == id && n2 == n => {
                                if x2 == x {
                                    2
                                } else {
                                    1
                                }
                            }
                            _ => 0,
                        }
                    };
                    let left_direct = same(a) == 2 && std::ptr::eq(strip(a), a);
                    if left_direct && canonical_op && !parenthesised {
                        out.push(v(t, i, true, "id[N] = id[N] op E"));
                    } else if same(a) > 0 || same(b) > 0 {
                        out.push(v(t, i, false, "gray update form"));
                    }
                }
                Some((id, Some(_idx))) => {
                    // non-literal index: gray when an operand is a subscript of the same array with a non-literal index
                    let g = |o: &E| matches!(subscript_of(strip(o)), Some((id2, Some(ix))) if id2 == id && !matches!(ix, E::NumberLiteral(..)));
                    if g(a) || g(b) {
                        out.push(v(t, i, false, "non-literal index"));
                    }
                }
                Some((_, None)) => {}
                None => {
                    // nested subscripts / member bases: gray when the right side contains a subscript at all
                    let has = |o: &E| matches!(strip(o), E::ArraySubscript(..));
                    if has(a) || has(b) {
                        out.push(v(t, i, false, "nested subscript"));
                    }
                }
            }
        }
    }
    out
}

// 8.5
fn r_cache_array_length(t: &RTree) -> Vec<Verdict> {
    let mut out = Vec::new();
    let mut seen = HashSet::new();
    for i in 0..t.nodes.len() {
        if t.nodes[i].kind == "For" {
            if let Some(c) = child_in_slot(t, i, "For.cond") {
                for j in t.subtree(c) {
                    if let Some(E::MemberAccess(_, _, m)) = t.expr_at(j) {
                        if m.name == "length" && seen.insert(j) {
                            out.push(v(t, j, true, ".length in for condition"));
                        }
                    }
                }
            }
        }
    }
    out
}

// 8.6
fn r_increment_decrement(t: &RTree) -> Vec<Verdict> {
    let mut out = Vec::new();
    for (i, e) in exprs(t) {
        match e {
            E::PostIncrement(..) | E::PostDecrement(..) => out.push(v(t, i, true, "postfix")),
            E::PreIncrement(..) | E::PreDecrement(..) => {
                let in_unchecked = t.ancestors(i).iter().any(|&a| matches!(t.stmt_at(a), Some(pt::Statement::Block { unchecked: true, .. })));
                if !in_unchecked {
                    out.push(v(t, i, true, "prefix outside unchecked"));
                }
            }
            _ => {}
        }
    }
    out
}

// 8.7
fn r_multiple_require(t: &RTree) -> Vec<Verdict> {
    let mut out = Vec::new();
    for (i, e) in exprs(t) {
        if let E::FunctionCall(_, callee, args) = e {
            if ident(callee) != Some("require") {
                continue;
            }
            if args.iter().any(|a| matches!(a, E::And(..))) {
                out.push(v(t, i, true, "require(A && B)"));
            } else {
                // && nested below an argument
                let nested = t.nodes[i].children.iter().filter(|&&c| t.nodes[c].slot == "Call.arg").any(|&c| t.subtree(c).any(|j| t.nodes[j].kind == "And"));
                if nested {
                    out.push(v(t, i, false, "nested &&"));
                }
            }
        }
    }
    out
}

// 8.9
fn r_shift_math(t: &RTree) -> Vec<Verdict> {
    // classification of one operand: 2 = canonical power of two (2^1..2^255, plain decimal literal),
    // 1 = gray, 0 = no
    fn cls(e: &E) -> u8 {
        match e {
            E::NumberLiteral(_, i, x) => {
                if x.is_empty() {
                    match dec_is_pow2(i) {
                        Some(0) => 1,
                        Some(k) if k <= 255 => 2,
                        Some(_) => 1,
                        None => 0,
                    }
                } else {
                    match lit_value(i, x).and_then(|v| dec_is_pow2(&v)) {
                        Some(_) => 1,
                        None => 0,
                    }
                }
            }
            E::HexNumberLiteral(_, h) => {
                let hex = h.trim_start_matches("0x").trim_start_matches("0X").replace('_', "");
                let nz: Vec<char> = hex.chars().filter(|c| *c != '0').collect();
                if nz.len() == 1 && ['1', '2', '4', '8'].contains(&nz[0]) {
                    1
                } else {
                    0
                }
            }
            E::Parenthesis(_, inner) => cls(inner).min(1),
            _ => 0,
        }
    }
    let mut out = Vec::new();
    for (i, e) in exprs(t) {
        match e {
            E::Multiply(_, l, r) => {
                let c = cls(l).max(cls(r));
                if c == 2 {
                    out.push(v(t, i, true, "E * 2^k"));
                } else if c == 1 {
                    out.push(v(t, i, false, "gray literal"));
                }
            }
            E::Divide(_, l, r) => {
                if cls(r) == 2 {
                    out.push(v(t, i, true, "E / 2^k"));
                } else if cls(r) == 1 || cls(l) > 0 {
                    out.push(v(t, i, false, "gray literal / N / E"));
                }
            }
            _ => {}
        }
    }
    out
}

// 8.10
fn r_keccak(t: &RTree) -> Vec<Verdict> {
    let mut out = Vec::new();
    let mut called = HashSet::new();
    for (i, e) in exprs(t) {
        if let E::FunctionCall(_, callee, _) = e {
            if ident(callee) == Some("keccak256") {
                out.push(v(t, i, true, "keccak256(..)"));
                if let Some(c) = child_in_slot(t, i, "Call.callee") {
                    called.insert(c);
                }
            }
        }
    }
    for (i, e) in exprs(t) {
        if ident(e) == Some("keccak256") && !called.contains(&i) {
            out.push(v(t, i, false, "bare identifier"));
        }
    }
    out
}

// 8.12
fn r_payable_function(t: &RTree) -> Vec<Verdict> {
    let mut out = Vec::new();
    for (i, f, member) in functions(t) {
        let vis = fn_vis(f);
        let pe = vis.iter().any(|x| *x == "public" || *x == "external");
        let matches = f.body.is_some() && pe && !fn_payable(f);
        if !matches {
            continue;
        }
        let decided = member && vis.len() == 1 && matches!(f.ty, pt::FunctionTy::Function | pt::FunctionTy::Fallback) && (f.name.is_some() || f.ty == pt::FunctionTy::Fallback);
        let parent = t.nodes[i].parent.unwrap();
        let mut vd = v(t, parent, decided, "public/external non-payable function with body");
        vd.anchors = vec![t.nodes[parent].start];
        out.push(vd);
    }
    out
}

// 8.13
fn r_private_constant(t: &RTree) -> Vec<Verdict> {
    let mut out = Vec::new();
    for sv in state_vars(t) {
        let matches = var_constant(sv.def) && !var_vis(sv.def).contains(&"private");
        if !matches {
            continue;
        }
        let decided = !sv.file_level && elementary(&sv.def.ty) && var_vis(sv.def).len() <= 1 && !var_immutable(sv.def);
        out.push(v(t, sv.node, decided, "non-private constant"));
    }
    out
}

// 8.14
fn r_private_vars(t: &RTree) -> Vec<Verdict> {
    let mut out = Vec::new();
    for sv in state_vars(t) {
        let vis = var_vis(sv.def);
        let und = sv.name.starts_with('_');
        let matches = vis.iter().any(|x| (*x == "private" || *x == "internal") && !und) || vis.iter().any(|x| (*x == "public" || *x == "external") && und);
        if !matches {
            continue;
        }
        let decided = !sv.file_level && elementary(&sv.def.ty) && vis.len() == 1 && vis[0] != "external" && !var_constant(sv.def);
        out.push(v(t, sv.node, decided, "underscore contradicts visibility"));
    }
    out
}

// 8.15
fn r_private_func(t: &RTree) -> Vec<Verdict> {
    let mut out = Vec::new();
    for (i, f, member) in functions(t) {
        if f.ty != pt::FunctionTy::Function {
            continue;
        }
        let name = match &f.name {
            Some(n) => n,
            None => continue,
        };
        let vis = fn_vis(f);
        let und = name.name.starts_with('_');
        let matches = vis.iter().any(|x| (*x == "private" || *x == "internal") && !und) || vis.iter().any(|x| (*x == "public" || *x == "external") && und);
        if !matches {
            continue;
        }
        let decided = member && vis.len() == 1;
        let parent = t.nodes[i].parent.unwrap();
        let mut vd = v(t, parent, decided, "underscore contradicts visibility");
        if let pt::Loc::File(_, s, _) = name.loc {
            vd.anchors.push(s);
        }
        out.push(vd);
    }
    out
}

// 8.16
fn r_constructor_order(t: &RTree) -> Vec<Verdict> {
    let mut out = Vec::new();
    for (ci, n) in t.nodes.iter().enumerate() {
        if n.kind != "ContractDefinition" {
            continue;
        }
        let mut seen_fn = false;
        for &m in &n.children {
            if let PtRef::CPart(pt::ContractPart::FunctionDefinition(f)) = t.nodes[m].pt {
                match f.ty {
                    pt::FunctionTy::Constructor => {
                        if seen_fn {
                            out.push(v(t, m, true, "constructor after a function"));
                        }
                    }
                    pt::FunctionTy::Modifier => {}
                    pt::FunctionTy::Function | pt::FunctionTy::Fallback | pt::FunctionTy::Receive => seen_fn = true,
                }
            }
        }
        let _ = ci;
    }
    out
}

// 8.17
fn r_erc20(t: &RTree) -> Vec<Verdict> {
    let mut out = Vec::new();
    for (i, e) in exprs(t) {
        if let E::MemberAccess(_, _, m) = e {
            if m.name == "transfer" || m.name == "transferFrom" || m.name == "approve" {
                out.push(v(t, i, true, "erc20 member"));
            }
        }
    }
    out
}

// 8.18
fn r_div_before_mul(t: &RTree) -> Vec<Verdict> {
    let mut out = Vec::new();
    for (i, e) in exprs(t) {
        match e {
            E::Multiply(_, l, _) => {
                let mut cur: &E = l;
                let mut on_chain = false;
                loop {
                    match cur {
                        E::Divide(..) => {
                            on_chain = true;
                            break;
                        }
                        E::Multiply(_, a, _) => cur = a,
                        E::Parenthesis(_, a) => cur = a,
                        _ => break,
                    }
                }
                if on_chain {
                    out.push(v(t, i, true, "division on the left chain"));
                } else if let Some(lc) = child_in_slot(t, i, "Binary.left") {
                    if t.subtree(lc).any(|j| t.nodes[j].kind == "Divide") {
                        out.push(v(t, i, false, "division below the left operand"));
                    }
                }
            }
            E::AssignDivide(_, _, r) => {
                let mut cur: &E = r;
                let mut on_chain = false;
                loop {
                    match cur {
                        E::Multiply(..) => {
                            on_chain = true;
                            break;
                        }
                        E::Divide(_, a, _)
                        | E::Add(_, a, _)
                        | E::Subtract(_, a, _)
                        | E::Modulo(_, a, _)
                        | E::BitwiseAnd(_, a, _)
                        | E::BitwiseOr(_, a, _)
                        | E::BitwiseXor(_, a, _)
                        | E::ShiftLeft(_, a, _)
                        | E::ShiftRight(_, a, _) => cur = a,
                        E::Parenthesis(_, a) => cur = a,
                        _ => break,
                    }
                }
                if on_chain {
                    out.push(v(t, i, true, "multiplication on the right-hand chain"));
                } else if let Some(rc) = child_in_slot(t, i, "Binary.right") {
                    if t.subtree(rc).any(|j| t.nodes[j].kind == "Multiply") {
                        out.push(v(t, i, false, "multiplication below the right-hand side"));
                    }
                }
            }
            // `x *= R` with a division in R multiplies after dividing, but the statement names neither it nor its
            // absence: gray
            E::AssignMultiply(..) => {
                if let Some(rc) = child_in_slot(t, i, "Binary.right") {
                    if t.subtree(rc).any(|j| t.nodes[j].kind == "Divide") {
                        out.push(v(t, i, false, "*= with a division on the right-hand side"));
                    }
                }
            }
            _ => {}
        }
    }
    out
}

// 8.19
fn r_floating_pragma(t: &RTree) -> Vec<Verdict> {
    let mut out = Vec::new();
    for (i, n) in t.nodes.iter().enumerate() {
        if let PtRef::Part(pt::SourceUnitPart::PragmaDirective(_, name, value)) = n.pt {
            let s = value.string.trim();
            if s.contains('^') {
                out.push(v(t, i, true, "caret pragma"));
                continue;
            }
            let pinned = {
                let r = s.strip_prefix('=').unwrap_or(s).trim();
                let parts: Vec<&str> = r.split('.').collect();
                parts.len() == 3 && parts.iter().all(|p| !p.is_empty() && p.chars().all(|c| c.is_ascii_digit()))
            };
            if pinned || name.name != "solidity" {
                continue;
            }
            out.push(v(t, i, false, "range pragma"));
        }
    }
    out
}

// 8.20
fn r_selfdestruct(t: &RTree) -> Vec<Verdict> {
    let mut out = Vec::new();
    for (fi, f, member) in functions(t) {
        if !member || f.body.is_none() {
            continue;
        }
        let body = match child_in_slot(t, fi, "Func.body") {
            Some(b) => b,
            None => continue,
        };
        let is_sd_call = |j: usize| -> bool {
            match t.expr_at(j) {
                Some(E::FunctionCall(_, callee, _)) => matches!(ident(callee), Some("selfdestruct") | Some("suicide")),
                _ => false,
            }
        };
        let sd_calls: Vec<usize> = t.subtree(body).filter(|&j| is_sd_call(j)).collect();
        if sd_calls.is_empty() {
            continue;
        }
        // classify the mentions of msg.sender in the body
        let mut has_ii = false;
        let mut has_iii = false;
        for j in t.subtree(body) {
            let e = match t.expr_at(j) {
                Some(e) => e,
                None => continue,
            };
            if !is_msg_sender(e) {
                continue;
            }
            // (i) inside the arguments of a selfdestruct call
            let anc = t.ancestors(j);
            let mut inside_sd = false;
            let mut prev = j;
            for &a in &anc {
                if is_sd_call(a) && t.nodes[prev].slot == "Call.arg" {
                    inside_sd = true;
                    break;
                }
                prev = a;
                if a == body {
                    break;
                }
            }
            if inside_sd {
                continue;
            }
            // walk up through conversions and parentheses
            let mut cur = j;
            let mut converted = false;
            loop {
                let p = match t.nodes[cur].parent {
                    Some(p) => p,
                    None => break,
                };
                match t.expr_at(p) {
                    Some(E::FunctionCall(_, callee, _)) if matches!(**callee, E::Type(..)) && t.nodes[cur].slot == "Call.arg" => {
                        converted = true;
                        cur = p;
                    }
                    Some(E::Parenthesis(..)) => cur = p,
                    _ => break,
                }
            }
            // what holds `cur`?
            let p = match t.nodes[cur].parent {
                Some(p) => p,
                None => {
                    has_iii = true;
                    continue;
                }
            };
            let direct_arg_of_call = |node: usize, holder: usize| -> bool {
                t.nodes[node].slot == "Call.arg" && matches!(t.expr_at(holder), Some(E::FunctionCall(_, callee, _)) if !matches!(**callee, E::Type(..))) && !is_sd_call(holder)
            };
            let call_is_emit = |call: usize| -> bool { t.nodes[call].slot == "Emit.expr" };
            let mut class_ii = false;
            if direct_arg_of_call(cur, p) && !call_is_emit(p) {
                class_ii = true;
            } else if matches!(t.expr_at(p), Some(E::Equal(..)) | Some(E::NotEqual(..))) {
                if let Some(pp) = t.nodes[p].parent {
                    if direct_arg_of_call(p, pp) && !call_is_emit(pp) {
                        class_ii = true;
                    }
                }
            }
            if class_ii && !converted && cur == j {
                has_ii = true;
            } else if class_ii {
                // a converted / parenthesised mention used as a check: the property does not say
                has_iii = true;
            } else if converted {
                // plain conversion that is not part of a check: class (i)
            } else {
                has_iii = true;
            }
        }
        let vis = fn_vis(f);
        let public = vis.len() == 1 && (vis[0] == "public" || vis[0] == "external");
        let mut only_lower = false;
        let mut only_any = false;
        for a in &f.attributes {
            if let pt::FunctionAttribute::BaseOrModifier(_, b) = a {
                for id in &b.name.identifiers {
                    if id.name.contains("only") {
                        only_lower = true;
                    }
                    if id.name.to_lowercase().contains("only") {
                        only_any = true;
                    }
                }
            }
        }
        let ctor = f.ty == pt::FunctionTy::Constructor;
        let internal = !vis.is_empty() && vis.iter().all(|x| *x == "internal" || *x == "private");
        let no = ctor || internal || only_lower || has_ii;
        if no {
            continue;
        }
        let must = public && !only_any && !has_iii && matches!(f.ty, pt::FunctionTy::Function | pt::FunctionTy::Fallback | pt::FunctionTy::Receive);
        for c in sd_calls {
            // a selfdestruct nested in a selfdestruct's arguments etc. is still a call in F
            out.push(v(t, c, must, if must { "unprotected selfdestruct" } else { "gray selfdestruct" }));
        }
    }
    out
}

// 8.21
fn r_constant_variables(t: &RTree) -> Vec<Verdict> {
    let ws = writes(t);
    let mut out = Vec::new();
    for sv in state_vars(t) {
        if sv.file_level {
            continue;
        }
        if var_constant(sv.def) {
            continue;
        }
        if ws.iter().any(|w| w.direct.as_deref() == Some(sv.name.as_str())) {
            continue;
        }
        let gray_written = ws.iter().any(|w| w.rooted.iter().any(|r| *r == sv.name));
        let must = elementary(&sv.def.ty) && !gray_written;
        if !must && type_kind(&sv.def.ty) == "mapping" && !gray_written {
            // mappings are never candidates in the documented pattern; keep them gray
        }
        out.push(v(t, sv.node, must, "never written"));
    }
    out
}

// 8.22
fn ok_immutable_rhs(e: &E) -> bool {
    match e {
        E::NumberLiteral(..) | E::BoolLiteral(..) | E::HexNumberLiteral(..) | E::AddressLiteral(..) | E::RationalNumberLiteral(..) | E::HexLiteral(..) => true,
        E::Variable(_) => true,
        E::MemberAccess(..) => true,
        E::FunctionCall(_, callee, _) => match &**callee {
            E::MemberAccess(_, obj, _) => ident(obj) != Some("abi"),
            E::Type(_, pt::Type::DynamicBytes) | E::Type(_, pt::Type::String) => false,
            _ => true,
        },
        _ => false,
    }
}
fn r_immutable_variables(t: &RTree) -> Vec<Verdict> {
    let ws = writes(t);
    let mut out = Vec::new();
    for sv in state_vars(t) {
        if sv.file_level {
            continue;
        }
        let mine: Vec<&Write> = ws.iter().filter(|w| w.direct.as_deref() == Some(sv.name.as_str()) || w.rooted.iter().any(|r| *r == sv.name)).collect();
        // No (1): no write of any form in a constructor / base arguments / initialiser
        let ctorish = mine.iter().any(|w| matches!(place(t, w.node).0, Place::Body(pt::FunctionTy::Constructor) | Place::Attr(pt::FunctionTy::Constructor) | Place::Sig(pt::FunctionTy::Constructor) | Place::ContractBase | Place::VarDef));
        if !ctorish {
            continue;
        }
        // No (2): a direct write in the body or modifier arguments of a non-constructor member function
        let direct_elsewhere = mine.iter().any(|w| {
            w.direct.is_some()
                && match place(t, w.node) {
                    (Place::Body(ty), Some(f)) | (Place::Attr(ty), Some(f)) => ty != pt::FunctionTy::Constructor && t.nodes[f].parent.map(|p| t.nodes[p].class == Class::CPart).unwrap_or(false),
                    _ => false,
                }
        });
        if direct_elsewhere {
            continue;
        }
        // Must: value type, not constant/immutable, every write is a plain `=` in a constructor body with an acceptable right-hand side
        let all_canonical = !mine.is_empty()
            && mine.iter().all(|w| {
                w.kind == "Assign"
                    && w.direct.is_some()
                    && matches!(place(t, w.node).0, Place::Body(pt::FunctionTy::Constructor))
                    && match t.expr_at(w.node) {
                        Some(E::Assign(_, _, r)) => ok_immutable_rhs(r),
                        _ => false,
                    }
            });
        let must = all_canonical && value_type(&sv.def.ty) && !var_constant(sv.def) && !var_immutable(sv.def);
        out.push(v(t, sv.node, must, "assigned in constructor only"));
    }
    out
}

// 8.23
fn r_memory_to_calldata(t: &RTree) -> Vec<Verdict> {
    let ws = writes(t);
    let mut out = Vec::new();
    for (fi, f, member) in functions(t) {
        if f.ty == pt::FunctionTy::Constructor {
            continue;
        }
        let body = child_in_slot(t, fi, "Func.body");
        let inside = |n: usize, root: usize| t.subtree(root).contains(&n);
        for &pc in &t.nodes[fi].children {
            if t.nodes[pc].slot != "Func.param" {
                continue;
            }
            let p = match t.nodes[pc].pt {
                PtRef::Param(p) => p,
                _ => continue,
            };
            let mem_loc = match &p.storage {
                Some(pt::StorageLocation::Memory(pt::Loc::File(_, s, _))) => *s,
                _ => continue,
            };
            let name = p.name.as_ref().map(|n| n.name.clone());
            // No: body assigns p or p[E] with a plain `=`
            if let (Some(nm), Some(b)) = (&name, body) {
                let plain = ws.iter().any(|w| w.kind == "Assign" && inside(w.node, b) && (w.direct.as_deref() == Some(nm.as_str()) || w.index_of.as_deref() == Some(nm.as_str())));
                if plain {
                    continue;
                }
            }
            let vis = fn_vis(f);
            let public = vis.len() == 1 && (vis[0] == "public" || vis[0] == "external");
            let any_write = match &name {
                Some(nm) => ws.iter().any(|w| inside(w.node, fi) && (w.direct.as_deref() == Some(nm.as_str()) || w.rooted.iter().any(|r| r == nm))),
                None => false,
            };
            let dup = name.as_ref().map(|nm| f.params.iter().filter(|(_, q)| q.as_ref().and_then(|q| q.name.as_ref()).map(|x| &x.name == nm).unwrap_or(false)).count() > 1).unwrap_or(false);
            // a function named after its own contract is a constructor in the pre-0.5.0 language: gray
            let old_style_ctor = match (&f.name, enclosing_contract_name(t, fi)) {
                (Some(n), Some(c)) => n.name == c,
                _ => false,
            };
            let must = member && public && name.is_some() && body.is_some() && !any_write && !dup && !old_style_ctor && matches!(f.ty, pt::FunctionTy::Function | pt::FunctionTy::Fallback);
            let mut vd = v(t, pc, must, "memory parameter never written");
            vd.anchors.push(mem_loc);
            out.push(vd);
        }
    }
    out
}

fn enclosing_contract_name(t: &RTree, mut i: usize) -> Option<String> {
    while let Some(p) = t.nodes[i].parent {
        if let PtRef::Part(pt::SourceUnitPart::ContractDefinition(c)) = t.nodes[p].pt {
            return Some(c.name.name.clone());
        }
        i = p;
    }
    None
}

// 8.24
fn r_sstore(t: &RTree) -> Vec<Verdict> {
    let svs = state_vars(t);
    let mut out = Vec::new();
    for w in writes(t) {
        if w.kind != "Assign" {
            continue;
        }
        let name = match &w.direct {
            Some(n) => n,
            None => continue,
        };
        for sv in svs.iter().filter(|s| &s.name == name) {
            if var_constant(sv.def) || var_immutable(sv.def) {
                continue;
            }
            match type_kind(&sv.def.ty) {
                "elementary" => out.push(v(t, w.node, !sv.file_level, "assignment to state variable")),
                "fntype" => out.push(v(t, w.node, false, "function-typed variable")),
                _ => {}
            }
        }
    }
    out
}

// 8.25 / 8.26
fn safemath_attached(t: &RTree) -> u8 {
    // 2 = attached (library called SafeMath), 1 = gray (SafeMath as a non-final path component), 0 = no
    let mut best = 0;
    for n in &t.nodes {
        let u = match n.pt {
            PtRef::Part(pt::SourceUnitPart::Using(u)) => u,
            PtRef::CPart(pt::ContractPart::Using(u)) => u,
            _ => continue,
        };
        if let pt::UsingList::Library(path) = &u.list {
            if path.identifiers.last().map(|i| i.name == "SafeMath").unwrap_or(false) {
                best = 2;
            } else if path.identifiers.iter().any(|i| i.name == "SafeMath") {
                best = best.max(1);
            }
        }
    }
    best
}
fn r_safe_math(t: &RTree, pre: bool) -> Vec<Verdict> {
    let att = safemath_attached(t);
    let ver = file_version(t);
    let mut out = Vec::new();
    for (i, e) in exprs(t) {
        if let E::FunctionCall(_, callee, _) = e {
            if let E::MemberAccess(_, obj, m) = &**callee {
                let canonical = ["add", "sub", "mul", "div"].contains(&m.name.as_str());
                // other functions of the library (`mod`, `tryAdd`, ...) and explicit calls `SafeMath.add(a, b)` are not what
                // the statement calls a call site: whether they are reported is open (gray), on the side of the version
                let other_fn = ["mod", "tryAdd", "trySub", "tryMul", "tryDiv", "tryMod"].contains(&m.name.as_str());
                let explicit = matches!(&**obj, E::Variable(id) if id.name == "SafeMath");
                if !(canonical || other_fn) || (att == 0 && !explicit) {
                    continue;
                }
                let callee_idx = child_in_slot(t, i, "Call.callee").unwrap();
                let (must, listed) = match &ver {
                    Version::Exact(a, b, c) => {
                        let is_pre = (*a, *b, *c) < (0, 8, 0);
                        (is_pre == pre && att == 2 && canonical && !explicit, is_pre == pre)
                    }
                    Version::Undefined => (false, true),
                };
                if listed {
                    out.push(v(t, callee_idx, must, "SafeMath call site"));
                }
            }
        }
    }
    out
}

// 8.27 / 8.28
fn require_strings<'a>(t: &'a RTree<'a>) -> Vec<(usize, &'a Vec<pt::StringLiteral>)> {
    let mut out = Vec::new();
    for (i, e) in exprs(t) {
        if let E::FunctionCall(_, callee, args) = e {
            if ident(callee) == Some("require") {
                if let Some(E::StringLiteral(parts)) = args.last() {
                    out.push((i, parts));
                }
            }
        }
    }
    out
}
/// `revert("...")` statements and `revert(...)` calls with a string literal last: the statement speaks of `require` only,
/// so whether these are reported too is open (gray), on the side of the version
fn revert_strings(t: &RTree) -> Vec<usize> {
    let mut out = Vec::new();
    for (i, n) in t.nodes.iter().enumerate() {
        match n.pt {
            PtRef::Stmt(pt::Statement::Revert(_, _, args)) => {
                if matches!(args.last(), Some(E::StringLiteral(_))) {
                    out.push(i);
                }
            }
            PtRef::Expr(E::FunctionCall(_, callee, args)) => {
                if ident(callee) == Some("revert") && matches!(args.last(), Some(E::StringLiteral(_))) {
                    out.push(i);
                }
            }
            _ => {}
        }
    }
    out
}
fn r_string_errors(t: &RTree) -> Vec<Verdict> {
    let ver = file_version(t);
    let mut out = Vec::new();
    for i in revert_strings(t) {
        let listed = match &ver {
            Version::Exact(a, b, c) => (*a, *b, *c) >= (0, 8, 4),
            Version::Undefined => true,
        };
        if listed {
            out.push(v(t, i, false, "revert with string"));
        }
    }
    for (i, parts) in require_strings(t) {
        let (must, listed) = match &ver {
            Version::Exact(a, b, c) => ((*a, *b, *c) >= (0, 8, 4), (*a, *b, *c) >= (0, 8, 4)),
            Version::Undefined => (false, true),
        };
        if listed {
            let mut vd = v(t, i, must, "require with string");
            if let pt::Loc::File(_, s, _) = parts[0].loc {
                vd.anchors.push(s);
            }
            out.push(vd);
        }
    }
    out
}
fn r_short_revert(t: &RTree) -> Vec<Verdict> {
    let ver = file_version(t);
    let mut out = Vec::new();
    for i in revert_strings(t) {
        let listed = match &ver {
            Version::Exact(a, b, c) => (*a, *b, *c) < (0, 8, 4),
            Version::Undefined => true,
        };
        if listed {
            out.push(v(t, i, false, "revert with string"));
        }
    }
    for (i, parts) in require_strings(t) {
        let first_len = parts[0].string.len();
        let total: usize = parts.iter().map(|p| p.string.len()).sum();
        let ambiguous = parts.len() > 1 || parts.iter().any(|p| p.string.contains('\\'));
        let long = first_len >= 32;
        if !long && !(ambiguous && total >= 32) {
            continue;
        }
        let (must, listed) = match &ver {
            Version::Exact(a, b, c) => ((*a, *b, *c) < (0, 8, 4) && long && !ambiguous, (*a, *b, *c) < (0, 8, 4)),
            Version::Undefined => (false, true),
        };
        if listed {
            let mut vd = v(t, i, must, "require with long string");
            if let pt::Loc::File(_, s, _) = parts[0].loc {
                vd.anchors.push(s);
            }
            out.push(vd);
        }
    }
    out
}

// 8.29 / 8.30 — the slot model lives in c10.rs; here: sizes, first-fit, min over permutations
pub fn type_bits(tye: &E) -> u32 {
    match tye {
        E::Type(_, pt::Type::Bool) => 8,
        E::Type(_, pt::Type::Address) | E::Type(_, pt::Type::AddressPayable) => 160,
        E::Type(_, pt::Type::Uint(n)) | E::Type(_, pt::Type::Int(n)) => *n as u32,
        E::Type(_, pt::Type::Bytes(n)) => 8 * (*n as u32),
        _ => 256,
    }
}
pub fn slots(seq: &[u32]) -> u32 {
    let mut used = 0u32;
    let mut n = 0u32;
    let mut open = false;
    for &s in seq {
        if !open || used + s > 256 {
            n += 1;
            used = s;
            open = true;
        } else {
            used += s;
        }
    }
    n
}
pub fn min_slots(seq: &[u32]) -> u32 {
    // brute force over permutations for small inputs; first-fit-decreasing lower bound check otherwise
    fn rec(items: &mut Vec<u32>, k: usize, best: &mut u32) {
        if k == items.len() {
            *best = (*best).min(slots(items));
            return;
        }
        let mut seen = HashSet::new();
        for i in k..items.len() {
            if !seen.insert(items[i]) {
                continue;
            }
            items.swap(k, i);
            rec(items, k + 1, best);
            items.swap(k, i);
        }
    }
    let mut v = seq.to_vec();
    let mut best = slots(seq);
    if v.len() <= 8 {
        rec(&mut v, 0, &mut best);
    }
    best
}
fn pack_verdict(seq: &[u32]) -> Option<bool> {
    let declared = slots(seq);
    if seq.len() > 8 {
        // too long for brute force: a lower bound decides "already optimal" (two members wider than
        // 128 bits can never share a slot, and no layout needs fewer than ceil(total bits / 256) slots),
        // the two sorted orders decide Must, anything else is gray
        let wide = seq.iter().filter(|x| **x > 128).count() as u32;
        let total: u64 = seq.iter().map(|x| *x as u64).sum();
        let lower = wide.max(((total + 255) / 256) as u32);
        if declared == lower {
            return None;
        }
        let mut a = seq.to_vec();
        a.sort();
        let mut d = a.clone();
        d.reverse();
        return if slots(&a) < declared && slots(&d) < declared { Some(true) } else { Some(false) };
    }
    let best = min_slots(seq);
    if declared == best {
        return None;
    }
    let mut a = seq.to_vec();
    a.sort();
    let mut d = a.clone();
    d.reverse();
    Some(slots(&a) < declared && slots(&d) < declared)
}
fn r_pack_storage(t: &RTree) -> Vec<Verdict> {
    let mut out = Vec::new();
    for (ci, n) in t.nodes.iter().enumerate() {
        if n.kind != "ContractDefinition" {
            continue;
        }
        let mut seq = Vec::new();
        let mut decided = true;
        for &m in &n.children {
            if let PtRef::CPart(pt::ContractPart::VariableDefinition(d)) = t.nodes[m].pt {
                seq.push(type_bits(&d.ty));
                if var_constant(d) || var_immutable(d) {
                    decided = false;
                }
            }
        }
        if !decided {
            // outside the decided alphabet: gray either way
            out.push(v(t, ci, false, "contract with constant / immutable members"));
            continue;
        }
        if let Some(must) = pack_verdict(&seq) {
            out.push(v(t, ci, must, "packable contract"));
        }
    }
    out
}
fn r_pack_struct(t: &RTree) -> Vec<Verdict> {
    let mut out = Vec::new();
    for (si, n) in t.nodes.iter().enumerate() {
        let sd = match n.pt {
            PtRef::Part(pt::SourceUnitPart::StructDefinition(s)) => s,
            PtRef::CPart(pt::ContractPart::StructDefinition(s)) => s,
            _ => continue,
        };
        let seq: Vec<u32> = sd.fields.iter().map(|f| type_bits(&f.ty)).collect();
        if let Some(must) = pack_verdict(&seq) {
            out.push(v(t, si, must, "packable struct"));
        }
    }
    out
}

// ------------------------------------------------------------------------------ comparison

#[derive(Clone, Copy, PartialEq, Eq, Debug)]
pub enum Mode {
    /// report only "wrong location" violations (C02 b)
    LocationOnly,
    /// report missed Must constructs and reports that match no Must/May construct
    Semantic,
    /// the same, and the reported line must be the line on which the construct BEGINS (C05 says so in as many words:
    /// "a line is reported if an occurrence … begins on it, and a line on which no construct matching the pattern begins is
    /// never reported"); inside a gray construct every line on which one of its nodes begins is admissible
    SemanticLines,
}

pub struct ProgResult {
    pub violations: Vec<Violation>,
    pub calls: u64,
    pub reported: u64,
    pub outcomes: Vec<u64>,
    pub must_counts: Vec<(usize, usize, usize)>, // per detector: (must, may, flagged)
    pub conform: Result<(), String>,
}

fn context_of(t: &RTree, i: usize) -> String {
    let n = &t.nodes[i];
    let mut owner = "-";
    let mut q = n.parent;
    while let Some(a) = q {
        if t.nodes[a].class != Class::Aux {
            owner = t.nodes[a].kind;
            break;
        }
        q = t.nodes[a].parent;
    }
    format!("{}@{}", n.slot, owner)
}

/// Compare the real detectors with the reference on one program given as text in which every
/// token start is known (`tok_offs` sorted).  `l1` = true when each token sits on its own line.
pub fn check_text(text: &str, tok_offs: &[usize], label: &str, detectors: &[Detector], mode: Mode) -> ProgResult {
    let mut res = ProgResult { violations: Vec::new(), calls: 0, reported: 0, outcomes: Vec::new(), must_counts: Vec::new(), conform: Ok(()) };
    let su = match solang_parser::parse(text, 0) {
        Ok((su, _)) => su,
        Err(e) => {
            res.conform = Err(format!("program rejected by the parser ({}): {:?}", label, e.iter().map(|d| d.message.clone()).collect::<Vec<_>>()));
            return res;
        }
    };
    let tree = RTree::convert(&su);
    // line -> offsets of tokens starting on that line
    let mut line_toks: HashMap<i32, Vec<usize>> = HashMap::new();
    for &o in tok_offs {
        line_toks.entry(crate::layout::line_of(text, o)).or_default().push(o);
    }
    for d in detectors {
        let verdicts = reference(d.name, &tree, text);
        res.calls += 1;
        let got = match dets::run_guarded(d, text, 0) {
            Ok(g) => g,
            Err(e) => {
                res.must_counts.push((0, 0, 0));
                // a panic as such is C04's business; but a construct that MUST be reported is not reported by a
                // call that does not return
                if mode != Mode::LocationOnly {
                    if let Some(x) = verdicts.iter().find(|x| x.must) {
                        res.violations.push(Violation {
                            site: format!("{}:missed:panic", d.name),
                            input: text.to_string(),
                            expected: format!("the construct at line {} is reported ({})", crate::layout::line_of(text, x.anchors[0]), x.note),
                            observed: format!("the detector panicked: {}", e.chars().take(160).collect::<String>()),
                            size: text.len(),
                            unit_test: dets::unit_test_for(d, text, "must return and report the construct"),
                            extra: serde_json::json!({"label": label}),
                        });
                    }
                }
                continue;
            }
        };
        res.reported += got.len() as u64;
        res.outcomes.push(util::fnv(&format!("{}:{:?}", d.name, got)));
        let must_n = verdicts.iter().filter(|x| x.must).count();
        res.must_counts.push((must_n, verdicts.len() - must_n, got.len()));
        let anchor_lines: HashSet<i32> = verdicts.iter().flat_map(|x| x.anchors.iter().map(|&a| crate::layout::line_of(text, a))).collect();
        // location (C02 b), exact case: when the reference knows no gray construct in this program and
        // exactly as many lines are reported as there are canonical constructs, the reported lines must
        // be anchor lines; a different line set of the same size is a construct reported at a wrong line
        let containers = verdicts.iter().any(|x| matches!(x.kind, "ContractDefinition" | "StructDefinition"));
        let node_start_inside = |l: &i32| {
            let toks = line_toks.get(l).cloned().unwrap_or_default();
            verdicts.iter().any(|x| tree.nodes.iter().any(|n| n.class != Class::Aux && n.start >= x.span.0 && n.start < x.span.1 && toks.contains(&n.start)))
        };
        let _ = (containers, &node_start_inside);
        if mode == Mode::LocationOnly && must_n > 0 && verdicts.len() == must_n && got.len() == must_n && got.iter().any(|l| !anchor_lines.contains(l)) {
            let must_lines: BTreeSet<i32> = verdicts.iter().map(|x| crate::layout::line_of(text, x.anchors[0])).collect();
            if must_lines.len() == must_n {
                res.violations.push(Violation {
                    site: format!("{}:location:shifted", d.name),
                    input: text.to_string(),
                    expected: format!("the {} flagged constructs begin on lines {:?}", must_n, must_lines),
                    observed: format!("reported lines {:?}", got),
                    size: text.len(),
                    unit_test: dets::unit_test_for(d, text, "reported lines must be the first lines of the flagged constructs"),
                    extra: json!({"label": label}),
                });
                continue;
            }
        }
        // soundness / location
        for &line in &got {
            if anchor_lines.contains(&line) {
                continue;
            }
            let toks = line_toks.get(&line).cloned().unwrap_or_default();
            // is some token of that line strictly inside a known construct's span?
            // (the innermost one, if constructs nest)
            let inside = verdicts.iter().filter(|x| toks.iter().any(|&o| o > x.span.0 && o < x.span.1)).min_by_key(|x| x.span.1 - x.span.0);
            // what starts on that line?
            let starts: Vec<&'static str> = tree.nodes.iter().filter(|n| n.class != Class::Aux && toks.contains(&n.start)).map(|n| n.kind).collect();
            // a detector that judges a container (contract, struct) may point at the container or at one of its
            // members: both are "the construct that was flagged"; the line must then be the first line of a member
            let member_of_container = |x: &Verdict| {
                matches!(x.kind, "ContractDefinition" | "StructDefinition")
                    && tree.nodes.iter().any(|n| n.class != Class::Aux && toks.contains(&n.start) && {
                        let mut q = n.parent;
                        let mut direct = false;
                        while let Some(a) = q {
                            if tree.nodes[a].class != Class::Aux {
                                direct = a == x.node;
                                break;
                            }
                            q = tree.nodes[a].parent;
                        }
                        direct
                    })
            };
            // which sub-construct of a flagged construct a detector points at is its own choice (the whole `require(...)` call
            // or its `a && b` condition): admissible is every line on which an expression / statement / declaration node
            // inside the flagged construct begins. A line on which only a later token of a node stands (a member name,
            // the second part of a string literal, a closing bracket) is not the first line of any construct.
            let sub_construct = |x: &Verdict| tree.nodes.iter().any(|n| n.class != Class::Aux && n.start >= x.span.0 && n.start < x.span.1 && toks.contains(&n.start));
            match (mode, inside) {
                // (C02's anchors name "each detector chooses which node's location to report" as part of the mechanism: the
                // flagged construct is the documented one, so neither tolerance is applied in location mode)
                (Mode::LocationOnly, Some(x)) if false && member_of_container(x) => {}
                // a gray form is one the documentation does not describe, so it does not say which of its nodes "the flagged
                // construct" is either (a build that reports `revert("...")` may point at the statement or at the message):
                // inside a gray construct every line on which a node of it begins is admissible
                (Mode::LocationOnly, Some(x)) if !x.must && sub_construct(x) => {}
                // the construct's own first line is reported as well: then this line is not where the finding MOVED to but a
                // further finding, on the first line of a node inside the construct (a build whose pattern is wider than the
                // documented one — `(q += 1)++` with `q += 1` reported too); whether that finding may exist is the business of
                // the semantic checks, its location is in order
                (Mode::LocationOnly, Some(x)) if sub_construct(x) && x.anchors.iter().any(|&a| got.contains(&crate::layout::line_of(text, a))) => {}
                (Mode::LocationOnly, Some(x)) => res.violations.push(Violation {
                    site: format!("{}:location:{}", d.name, x.kind),
                    input: text.to_string(),
                    expected: format!("the reported line is the line on which the flagged {} begins (line {})", x.kind, crate::layout::line_of(text, x.span.0)),
                    observed: format!("line {} is reported, which lies inside the construct; reported set {:?}", line, got),
                    size: text.len(),
                    unit_test: dets::unit_test_for(d, text, "reported lines must be the first lines of the flagged constructs"),
                    extra: json!({"label": label}),
                }),
                (Mode::LocationOnly, None) => {
                    if toks.is_empty() {
                        res.violations.push(Violation {
                            site: format!("{}:location:no-token-on-line", d.name),
                            input: text.to_string(),
                            expected: "every reported line holds the first token of a construct".into(),
                            observed: format!("line {} is reported but no token starts on it; reported set {:?}", line, got),
                            size: text.len(),
                            unit_test: dets::unit_test_for(d, text, ""),
                            extra: json!({"label": label}),
                        });
                    }
                }
                (Mode::Semantic, None) => res.violations.push(Violation {
                    site: format!("{}:unsound:{}", d.name, starts.first().copied().unwrap_or("nothing")),
                    input: text.to_string(),
                    expected: format!("no report on line {}: no construct matching the documented pattern of {} begins there (constructs beginning there: {:?})", line, d.name, starts),
                    observed: format!("reported lines {:?}", got),
                    size: text.len(),
                    unit_test: dets::unit_test_for(d, text, &format!("line {} must not be reported", line)),
                    extra: json!({"label": label}),
                }),
                (Mode::Semantic, Some(_)) => {}
                (Mode::SemanticLines, Some(x)) if !x.must && sub_construct(x) => {}
                (Mode::SemanticLines, Some(x)) => res.violations.push(Violation {
                    site: format!("{}:line-inside-construct:{}", d.name, x.kind),
                    input: text.to_string(),
                    expected: format!("no report on line {}: the {} that contains it begins on line {} and no construct matching the pattern begins on line {}", line, x.kind, crate::layout::line_of(text, x.span.0), line),
                    observed: format!("reported lines {:?}", got),
                    size: text.len(),
                    unit_test: dets::unit_test_for(d, text, &format!("line {} must not be reported", line)),
                    extra: json!({"label": label}),
                }),
                (Mode::SemanticLines, None) => res.violations.push(Violation {
                    site: format!("{}:unsound:{}", d.name, starts.first().copied().unwrap_or("nothing")),
                    input: text.to_string(),
                    expected: format!("no report on line {}: no construct matching the documented pattern of {} begins there (constructs beginning there: {:?})", line, d.name, starts),
                    observed: format!("reported lines {:?}", got),
                    size: text.len(),
                    unit_test: dets::unit_test_for(d, text, &format!("line {} must not be reported", line)),
                    extra: json!({"label": label}),
                }),
            }
        }
        // completeness
        if mode != Mode::LocationOnly {
            for x in verdicts.iter().filter(|x| x.must) {
                let mut ok = x.anchors.iter().any(|&a| got.contains(&crate::layout::line_of(text, a)));
                // a construct counts as reported by any reported line that lies inside it and not inside another verdict's
                // construct nested in it: WHERE inside the construct the finding points is C02's business
                if !ok && mode == Mode::Semantic {
                    let lo = crate::layout::line_of(text, x.span.0);
                    let hi = crate::layout::line_of(text, x.span.1.saturating_sub(1).max(x.span.0));
                    ok = got.iter().any(|&l| {
                        l >= lo && l <= hi && !verdicts.iter().any(|y| {
                            y.node != x.node && y.span.0 >= x.span.0 && y.span.1 <= x.span.1 && l >= crate::layout::line_of(text, y.span.0) && l <= crate::layout::line_of(text, y.span.1.saturating_sub(1).max(y.span.0))
                        })
                    });
                }
                if !ok {
                    res.violations.push(Violation {
                        site: format!("{}:missed:{}:{}", d.name, x.kind, context_of(&tree, x.node)),
                        input: text.to_string(),
                        expected: format!("line {} is reported: a canonical instance ({}) of {} begins there", crate::layout::line_of(text, x.anchors[0]), x.note, d.name),
                        observed: format!("reported lines {:?}", got),
                        size: text.len(),
                        unit_test: dets::unit_test_for(d, text, &format!("line {} must be reported", crate::layout::line_of(text, x.anchors[0]))),
                        extra: json!({"label": label}),
                    });
                }
            }
        }
    }
    res
}

pub struct Sweep {
    pub violations: Vec<Violation>,
    pub machinery: Vec<String>,
    pub programs: u64,
    pub calls: u64,
    pub validated: u64,
    pub distinct_outcomes: u64,
    pub reported_lines: u64,
    /// per detector: programs with non-empty Must / with May only / with reports
    pub stats: Vec<(String, u64, u64, u64)>,
    pub outcome_set: Vec<u64>,
    pub back_to_back_pairs: u64,
}

impl Sweep {
    pub fn empty(detectors: &[Detector]) -> Sweep {
        Sweep { violations: Vec::new(), machinery: Vec::new(), programs: 0, calls: 0, validated: 0, distinct_outcomes: 0, reported_lines: 0, stats: detectors.iter().map(|d| (d.name.to_string(), 0, 0, 0)).collect(), outcome_set: Vec::new(), back_to_back_pairs: 0 }
    }
    /// fold another sweep into this one, keeping only the smallest witness per violation site
    pub fn merge(&mut self, other: Sweep, outcomes: &mut BTreeSet<u64>) {
        self.programs += other.programs;
        self.calls += other.calls;
        self.validated += other.validated;
        self.reported_lines += other.reported_lines;
        self.back_to_back_pairs += other.back_to_back_pairs;
        for m in other.machinery {
            if self.machinery.len() < 20 {
                self.machinery.push(m);
            }
        }
        for (a, b) in self.stats.iter_mut().zip(other.stats.iter()) {
            a.1 += b.1;
            a.2 += b.2;
            a.3 += b.3;
        }
        outcomes.extend(other.outcome_set);
        self.distinct_outcomes = outcomes.len() as u64;
        // violations: keep the smallest per site plus a count carried in `extra`
        let mut best: HashMap<String, (Violation, u64)> = HashMap::new();
        for v in self.violations.drain(..).chain(other.violations.into_iter()) {
            let n = v.extra.get("merged_occurrences").and_then(|x| x.as_u64()).unwrap_or(1);
            match best.get_mut(&v.site) {
                Some((old, c)) => {
                    *c += n;
                    if v.size < old.size {
                        *old = v;
                    }
                }
                None => {
                    best.insert(v.site.clone(), (v, n));
                }
            }
        }
        for (_, (mut v, n)) in best {
            v.extra["merged_occurrences"] = json!(n);
            self.violations.push(v);
        }
    }
}

/// A history: the items are analysed one after the other on ONE fresh OS thread (thread-local state
/// starts empty and is carried from item to item); every result is compared with the reference.
pub fn sequence_check(items: &[(String, String, Vec<usize>)], detectors: &[Detector], mode: Mode) -> (Vec<Violation>, u64) {
    std::thread::scope(|s| {
        s.spawn(|| {
            let mut vs = Vec::new();
            let mut calls = 0u64;
            for (k, it) in items.iter().enumerate() {
                let r = check_text(&it.1, &it.2, &it.0, detectors, mode);
                calls += r.calls;
                for mut v in r.violations {
                    v.observed = format!("{} [item {} of the history {:?}]", v.observed, k + 1, items.iter().map(|x| x.0.clone()).collect::<Vec<_>>());
                    vs.push(v);
                }
            }
            (vs, calls)
        })
        .join()
        .unwrap()
    })
}

/// Accumulates (label, text, token offsets) items and sweeps them in batches (bounded memory).
pub struct Batch<'d> {
    items: Vec<(String, String, Vec<usize>)>,
    detectors: &'d [Detector],
    mode: Mode,
    pub total: Sweep,
    outcomes: BTreeSet<u64>,
    pub sample: Option<(String, String)>,
    filter_unique_names: bool,
}

impl<'d> Batch<'d> {
    pub fn new(detectors: &'d [Detector], mode: Mode, filter_unique_names: bool) -> Batch<'d> {
        Batch { items: Vec::new(), detectors, mode, total: Sweep::empty(detectors), outcomes: BTreeSet::new(), sample: None, filter_unique_names }
    }
    pub fn push(&mut self, item: (String, String, Vec<usize>)) {
        self.items.push(item);
        if self.items.len() >= 100_000 {
            self.flush();
        }
    }
    pub fn flush(&mut self) {
        if self.items.is_empty() {
            return;
        }
        let mut items = std::mem::take(&mut self.items);
        if self.filter_unique_names {
            let keep = util::par_map(items.len(), |i| unique_state_var_names(&items[i].1));
            items = items.into_iter().zip(keep).filter(|(_, k)| *k).map(|(x, _)| x).collect();
        }
        if self.sample.is_none() && !items.is_empty() {
            let m = &items[items.len() / 2];
            self.sample = Some((m.0.clone(), m.1.clone()));
        }
        let sw = sweep_texts(&items, self.detectors, self.mode);
        self.total.merge(sw, &mut self.outcomes);
    }
    pub fn finish(mut self) -> (Sweep, Option<(String, String)>) {
        self.flush();
        (self.total, self.sample)
    }
}

/// sweep the whole corpus of a tier chunk by chunk (bounded memory)
pub fn sweep_stream(tier: crate::corpus::Tier, detectors: &[Detector], mode: Mode, sample_filter: &dyn Fn(&synth::Prog) -> bool) -> (Sweep, crate::corpus::Summary, Vec<serde_json::Value>) {
    let mut total = Sweep::empty(detectors);
    let mut outcomes: BTreeSet<u64> = BTreeSet::new();
    let mut samples: Vec<serde_json::Value> = Vec::new();
    let sum = crate::corpus::stream(tier, &mut |chunk: Vec<synth::Prog>| {
        let c = Corpus { progs: chunk, generated: 0, families: Vec::new() };
        if samples.len() < 5 {
            if let Some(p) = c.progs.iter().filter(|p| sample_filter(p)).nth(c.progs.len() / 7 % 50) {
                samples.push(json!({"tag": p.tag, "source": synth::render_sp(&p.toks)}));
            }
        }
        let sw = sweep(&c, detectors, mode);
        total.merge(sw, &mut outcomes);
    });
    (total, sum, samples)
}

pub fn sweep(c: &Corpus, detectors: &[Detector], mode: Mode) -> Sweep {
    let mut items: Vec<(String, String, Vec<usize>)> = c
        .progs
        .iter()
        .map(|p| {
            let (t, o) = synth::render_l1(&p.toks);
            (p.tag.clone(), t, o)
        })
        .collect();
    // every 8th program additionally under a CRLF layout with two tokens per line: the comparison is by
    // anchor lines, so it is layout-independent, and a conversion that mishandles CR shows up here too
    for (i, p) in c.progs.iter().enumerate() {
        if i % 8 == 3 {
            let mut t = String::new();
            let mut o = Vec::with_capacity(p.toks.len());
            for (k, tok) in p.toks.iter().enumerate() {
                o.push(t.len());
                t.push_str(tok);
                t.push_str(if k % 2 == 1 { "\r\n" } else { " " });
            }
            items.push((format!("{}@crlf", p.tag), t, o));
        }
    }
    sweep_texts(&items, detectors, mode)
}

/// keep the smallest witness per site, remembering how many were merged
fn reduce(vs: &mut Vec<Violation>) {
    let mut best: HashMap<String, (Violation, u64)> = HashMap::new();
    for v in vs.drain(..) {
        let n = v.extra.get("merged_occurrences").and_then(|x| x.as_u64()).unwrap_or(1);
        match best.get_mut(&v.site) {
            Some((old, c)) => {
                *c += n;
                if v.size < old.size {
                    *old = v;
                }
            }
            None => {
                best.insert(v.site.clone(), (v, n));
            }
        }
    }
    for (_, (mut v, n)) in best {
        if !v.extra.is_object() {
            v.extra = json!({});
        }
        v.extra["merged_occurrences"] = json!(n);
        vs.push(v);
    }
}

pub fn sweep_texts(items: &[(String, String, Vec<usize>)], detectors: &[Detector], mode: Mode) -> Sweep {
    let res = util::par_map(items.len(), |i| check_text(&items[i].1, &items[i].2, &items[i].0, detectors, mode));
    let mut s = Sweep { violations: Vec::new(), machinery: Vec::new(), programs: 0, calls: 0, validated: 0, distinct_outcomes: 0, reported_lines: 0, stats: Vec::new(), outcome_set: Vec::new(), back_to_back_pairs: 0 };
    let mut outcomes: BTreeSet<u64> = BTreeSet::new();
    let mut st: Vec<(u64, u64, u64)> = vec![(0, 0, 0); detectors.len()];
    for r in res {
        s.programs += 1;
        s.calls += r.calls;
        s.reported_lines += r.reported;
        match r.conform {
            Ok(()) => s.validated += 1,
            Err(e) => {
                if s.machinery.len() < 20 {
                    s.machinery.push(e)
                }
            }
        }
        outcomes.extend(r.outcomes);
        for (k, (m, y, f)) in r.must_counts.iter().enumerate() {
            if k < st.len() {
                if *m > 0 {
                    st[k].0 += 1;
                } else if *y > 0 {
                    st[k].1 += 1;
                }
                if *f > 0 {
                    st[k].2 += 1;
                }
            }
        }
        s.violations.extend(r.violations);
        if s.violations.len() > 50_000 {
            reduce(&mut s.violations);
        }
    }
    reduce(&mut s.violations);
    // ---- back-to-back pass: pairs of different programs of equal byte length analysed one after
    //      the other on one thread with the same file number (A, B, A).  A result that depends on what
    //      was analysed before (a cache keyed too weakly) shows up deterministically here.
    if items.len() > 1 {
        let mut idx: Vec<usize> = (0..items.len()).collect();
        idx.sort_by_key(|&i| (items[i].1.len(), i));
        let mut pairs: Vec<(usize, usize)> = Vec::new();
        let mut per_len = 0;
        for w in idx.windows(2) {
            if items[w[0]].1.len() == items[w[1]].1.len() && items[w[0]].1 != items[w[1]].1 {
                if per_len < 2 {
                    pairs.push((w[0], w[1]));
                    per_len += 1;
                }
            } else {
                per_len = 0;
            }
        }
        let stride = (pairs.len() / 1200).max(1);
        let pairs: Vec<(usize, usize)> = pairs.into_iter().step_by(stride).collect();
        let pres = util::par_map(pairs.len(), |k| {
            let (a, b) = pairs[k];
            let mut vs = Vec::new();
            let mut calls = 0u64;
            for &i in &[a, b, a] {
                let r = check_text(&items[i].1, &items[i].2, &items[i].0, detectors, mode);
                calls += r.calls;
                for mut v in r.violations {
                    v.observed = format!("{} [analysed right after a different program of the same byte length]", v.observed);
                    vs.push(v);
                }
            }
            (vs, calls)
        });
        for (vs, c) in pres {
            s.calls += c;
            s.violations.extend(vs);
        }
        s.back_to_back_pairs = pairs.len() as u64;
        reduce(&mut s.violations);
    }
    // ---- second layout: every 8th program (at most ~2000) again with CRLF line ends.  Which construct is reported is a
    //      question about the tree, so the verdicts are the same; what can differ is only the line arithmetic.
    if !items.is_empty() {
        let stride = (items.len() / 2000).max(8);
        let sel: Vec<usize> = (0..items.len()).step_by(stride).collect();
        let cres = util::par_map(sel.len(), |k| {
            let (label, text, toks) = &items[sel[k]];
            let lf_before: Vec<usize> = {
                let mut acc = Vec::with_capacity(text.len() + 1);
                let mut n = 0usize;
                for b in text.bytes() {
                    acc.push(n);
                    if b == b'\n' {
                        n += 1;
                    }
                }
                acc.push(n);
                acc
            };
            if text.contains('\r') {
                return (Vec::new(), 0u64, None);
            }
            let text2 = text.replace('\n', "\r\n");
            let toks2: Vec<usize> = toks.iter().map(|&o| o + lf_before[o.min(text.len())]).collect();
            let r = check_text(&text2, &toks2, &format!("{}:crlf", label), detectors, mode);
            let mut vs = Vec::new();
            for mut v in r.violations {
                v.observed = format!("{} [the same program with CRLF line ends]", v.observed);
                vs.push(v);
            }
            (vs, r.calls, r.conform.err())
        });
        for (vs, c, m) in cres {
            s.calls += c;
            s.violations.extend(vs);
            if let Some(e) = m {
                if s.machinery.len() < 20 {
                    s.machinery.push(e);
                }
            }
        }
        reduce(&mut s.violations);
    }
    // ---- third layout: every 8th program (the ones between those of the CRLF pass) below a comment line full of multi-byte
    //      characters: byte offsets and character offsets differ by ~60 from there on, much more than a line of this layout
    //      is long, so arithmetic that confuses the two lands on other lines
    if !items.is_empty() {
        let stride = (items.len() / 2000).max(8);
        let sel: Vec<usize> = (stride / 2..items.len()).step_by(stride).collect();
        let head = "/* \u{e9}\u{e9} \u{4e2d}\u{6587}\u{4e2d}\u{6587}\u{4e2d}\u{6587} \u{1f600}\u{1f600}\u{1f600}\u{1f600}\u{1f600}\u{1f600}\u{1f600}\u{1f600} \u{43f}\u{440}\u{438}\u{432}\u{435}\u{442} */\n";
        let mres = util::par_map(sel.len(), |k| {
            let (label, text, toks) = &items[sel[k]];
            let text2 = format!("{}{}", head, text);
            let toks2: Vec<usize> = toks.iter().map(|&o| o + head.len()).collect();
            let r = check_text(&text2, &toks2, &format!("{}:multibyte-header", label), detectors, mode);
            let mut vs = Vec::new();
            for mut v in r.violations {
                v.observed = format!("{} [the same program below a comment line of multi-byte characters]", v.observed);
                vs.push(v);
            }
            (vs, r.calls, r.conform.err())
        });
        for (vs, c, m) in mres {
            s.calls += c;
            s.violations.extend(vs);
            if let Some(e) = m {
                if s.machinery.len() < 20 {
                    s.machinery.push(e);
                }
            }
        }
        reduce(&mut s.violations);
    }
    s.distinct_outcomes = outcomes.len() as u64;
    s.outcome_set = outcomes.into_iter().collect();
    s.stats = detectors.iter().zip(st).map(|(d, (a, b, c))| (d.name.to_string(), a, b, c)).collect();
    s
}
