//! Report exploration: C11 (entries = findings), C12 (totals and headings), C13 (determinism).
//! DESIGN.md section 7, C11–C13.

use crate::corpus::Tier;
use crate::ev::{Run, Violation};
use crate::util;
use serde_json::json;
use solstat::analyzer::optimizations::{get_all_optimizations, Optimization};
use solstat::analyzer::qa::{get_all_qa, QualityAssurance};
use solstat::analyzer::vulnerabilities::{get_all_vulnerabilities, Vulnerability};
use solstat::report::generation::generate_report;
use solstat::report::optimization_report::{generate_optimization_report, get_optimization_report_section};
use solstat::report::qa_report::{generate_qa_report, get_qa_report_section};
use solstat::report::vulnerability_report::{generate_vulnerability_report, get_vulnerability_report_section};
use std::collections::{BTreeMap, BTreeSet, HashMap, HashSet};

pub type Files = Vec<(String, BTreeSet<i32>)>;

/// a pattern of any category, addressed by (category, index in get_all_*())
#[derive(Clone, Copy, Debug, PartialEq, Eq, Hash, PartialOrd, Ord)]
pub enum Pat {
    V(usize),
    O(usize),
    Q(usize),
}

pub struct Tables {
    pub vulns: Vec<Vulnerability>,
    pub opts: Vec<Optimization>,
    pub qas: Vec<QualityAssurance>,
    pub section: BTreeMap<Pat, String>,
    pub name: BTreeMap<Pat, String>,
}

pub fn tables() -> Tables {
    let vulns = get_all_vulnerabilities();
    let opts = get_all_optimizations();
    let qas = get_all_qa();
    let mut section = BTreeMap::new();
    let mut name = BTreeMap::new();
    for (i, v) in vulns.iter().enumerate() {
        section.insert(Pat::V(i), get_vulnerability_report_section(*v).0);
        name.insert(Pat::V(i), format!("{:?}", v));
    }
    for (i, o) in opts.iter().enumerate() {
        section.insert(Pat::O(i), get_optimization_report_section(*o));
        name.insert(Pat::O(i), format!("{:?}", o));
    }
    for (i, q) in qas.iter().enumerate() {
        section.insert(Pat::Q(i), get_qa_report_section(*q));
        name.insert(Pat::Q(i), format!("{:?}", q));
    }
    Tables { vulns, opts, qas, section, name }
}

/// severity table transcribed from the property (not from the code)
pub fn severity_of(name: &str) -> &'static str {
    match name {
        "UnprotectedSelfdestruct" => "High",
        "DivideBeforeMultiply" => "Medium",
        "UnsafeERC20Operation" | "FloatingPragma" => "Low",
        _ => "?",
    }
}

#[derive(Debug, Default)]
pub struct Parsed {
    /// (position, pattern) of every occurrence of a section text
    pub sections: Vec<(usize, Pat)>,
    /// entries attributed to patterns
    pub entries: BTreeMap<Pat, Vec<(String, i64)>>,
    /// entries that precede every section
    pub orphans: Vec<(String, i64)>,
    /// list items that name a file of the findings map but carry no line number ("- Empty.sol:")
    pub lineless: Vec<String>,
    /// (position, number) of every "Total <word> <n>" outside section texts, with the word
    pub totals: Vec<(usize, String, i64)>,
    /// (position, severity word) of heading lines outside section texts containing High / Medium / Low
    pub severity_headings: Vec<(usize, &'static str)>,
    pub entry_positions: Vec<(usize, Pat)>,
}

pub fn parse_report(rep: &str, tb: &Tables) -> Parsed {
    parse_report_names(rep, tb, &[])
}

/// `names`: the file names of the findings that were rendered. Outside list entries a file name is just text (a
/// layout may repeat it in a sub-heading or a table): it is blanked before totals and severity headings are looked
/// for, so that a file called `Total Optimizations 9.sol` or `## High Risk.sol` cannot be mistaken for one
pub fn parse_report_names(rep: &str, tb: &Tables, names: &[String]) -> Parsed {
    let mut p = Parsed::default();
    let mut masked = vec![false; rep.len()];
    for (pat, text) in &tb.section {
        if text.trim().is_empty() {
            continue;
        }
        let mut start = 0;
        let mut found = false;
        while let Some(i) = rep[start..].find(text.as_str()) {
            let pos = start + i;
            p.sections.push((pos, *pat));
            found = true;
            for b in pos..pos + text.len() {
                masked[b] = true;
            }
            start = pos + text.len();
        }
        // a layout may put lines of its own (anchors, rules) between the lines of an explanatory text: then the text is
        // recognised by its first non-blank line, standing on a line of its own
        if !found {
            if let Some(first) = text.lines().find(|l| !l.trim().is_empty()) {
                let mut off = 0;
                for line in rep.split_inclusive('\n') {
                    if line.trim_end_matches(['\n', '\r']) == first {
                        p.sections.push((off, *pat));
                        for b in off..off + line.len() {
                            masked[b] = true;
                        }
                    }
                    off += line.len();
                }
            }
        }
    }
    p.sections.sort();
    let mut off = 0;
    for line in rep.split_inclusive('\n') {
        let pos = off;
        off += line.len();
        if masked[pos.min(rep.len().saturating_sub(1))] && pos < rep.len() {
            continue;
        }
        let l = line.trim_end_matches(['\n', '\r']);
        // entry: list item "<name>:<integer>"
        if let Some(rest) = l.strip_prefix("- ") {
            if let Some(c) = rest.rfind(':') {
                if let Ok(n) = rest[c + 1..].trim().parse::<i64>() {
                    let name = rest[..c].to_string();
                    match p.sections.iter().rev().find(|(sp, _)| *sp < pos) {
                        Some((_, pat)) => {
                            p.entries.entry(*pat).or_default().push((name, n));
                            p.entry_positions.push((pos, *pat));
                        }
                        None => p.orphans.push((name, n)),
                    }
                    continue;
                }
            }
        }
        if let Some(rest) = l.strip_prefix("- ") {
            if let Some(name) = rest.trim_end().strip_suffix(':') {
                if names.iter().any(|n| !n.is_empty() && n == name) {
                    p.lineless.push(l.to_string());
                    continue;
                }
            }
        }
        let blanked: String;
        let l = if names.iter().any(|n| !n.is_empty() && l.contains(n.as_str())) {
            let mut t = l.to_string();
            let mut sorted: Vec<&String> = names.iter().filter(|n| !n.is_empty()).collect();
            sorted.sort_by_key(|n| std::cmp::Reverse(n.len()));
            for n in sorted {
                t = t.replace(n.as_str(), "_");
            }
            blanked = t;
            blanked.as_str()
        } else {
            l
        };
        // totals
        if let Some(i) = l.find("Total") {
            let words: Vec<&str> = l[i..].split(|c: char| !c.is_alphanumeric()).filter(|w| !w.is_empty()).collect();
            // Total <word> <n>
            if words.len() >= 3 && words[2].chars().all(|c| c.is_ascii_digit()) {
                // the number may be written with digit-group separators ("1,234", "1 234", "1_234", "1'234", "1.234"): a separator
                // counts when exactly three digits follow it
                if let Some(at) = l[i..].find(words[2]) {
                    let cs: Vec<char> = l[i + at..].chars().collect();
                    let mut digits = String::new();
                    let mut k = 0;
                    while k < cs.len() && cs[k].is_ascii_digit() {
                        digits.push(cs[k]);
                        k += 1;
                    }
                    while k + 3 < cs.len() + 0 && matches!(cs[k], ',' | '_' | '\'' | ' ' | '.' | '\u{a0}' | '\u{202f}' | '\u{2009}') && cs[k + 1..k + 4].iter().all(|c| c.is_ascii_digit()) && cs.get(k + 4).map(|c| !c.is_ascii_digit()).unwrap_or(true) && !digits.is_empty() && digits.len() <= 3 + 3 * 6 {
                        digits.extend(cs[k + 1..k + 4].iter());
                        k += 4;
                    }
                    if let Ok(n) = digits.parse::<i64>() {
                        p.totals.push((pos, words[1].to_string(), n));
                    }
                }
            }
        }
        if l.trim_start().starts_with('#') {
            for w in ["High", "Medium", "Low"] {
                if l.split(|c: char| !c.is_alphanumeric()).any(|x| x == w) {
                    p.severity_headings.push((pos, w));
                }
            }
        }
    }
    p
}

pub struct Maps {
    pub v: Vec<(usize, Files)>,
    pub o: Vec<(usize, Files)>,
    pub q: Vec<(usize, Files)>,
}

fn hm<K: std::hash::Hash + Eq + Copy>(keys: &[K], items: &[(usize, Files)]) -> HashMap<K, Files> {
    let mut m = HashMap::new();
    for (i, f) in items {
        m.insert(keys[*i], f.clone());
    }
    m
}

fn expected_multiset(items: &[(usize, Files)], mk: fn(usize) -> Pat) -> BTreeMap<Pat, Vec<(String, i64)>> {
    let mut m: BTreeMap<Pat, Vec<(String, i64)>> = BTreeMap::new();
    for (i, files) in items {
        let e = m.entry(mk(*i)).or_default();
        for (f, lines) in files {
            for l in lines {
                e.push((f.clone(), *l as i64));
            }
        }
        e.sort();
    }
    m.retain(|_, v| !v.is_empty());
    m
}

fn describe_maps(m: &Maps, tb: &Tables) -> String {
    let mut s = String::new();
    for (i, f) in &m.v {
        s.push_str(&format!("V:{}={:?}; ", tb.name[&Pat::V(*i)], f));
    }
    for (i, f) in &m.o {
        s.push_str(&format!("O:{}={:?}; ", tb.name[&Pat::O(*i)], f));
    }
    for (i, f) in &m.q {
        s.push_str(&format!("Q:{}={:?}; ", tb.name[&Pat::Q(*i)], f));
    }
    s
}

/// C11 + C12 oracles on one rendered report text.  `which` selects the oracle family.
fn check_report(rep: &str, m: &Maps, tb: &Tables, via: &str, c11: bool, out: &mut Vec<Violation>) {
    let names: Vec<String> = m.v.iter().chain(m.o.iter()).chain(m.q.iter()).flat_map(|(_, fs)| fs.iter().map(|(n, _)| n.clone())).collect();
    let p = parse_report_names(rep, tb, &names);
    let mut want: BTreeMap<Pat, Vec<(String, i64)>> = BTreeMap::new();
    want.extend(expected_multiset(&m.v, Pat::V));
    want.extend(expected_multiset(&m.o, Pat::O));
    want.extend(expected_multiset(&m.q, Pat::Q));
    let input = describe_maps(m, tb);
    let size = input.len();
    let mut push = |site: String, expected: String, observed: String| {
        out.push(Violation { site, input: input.clone(), expected, observed, size, unit_test: String::new(), extra: json!({"via": via, "report": rep}) })
    };
    if c11 {
        let mut got = p.entries.clone();
        for v in got.values_mut() {
            v.sort();
        }
        if !p.lineless.is_empty() {
            push(format!("{}:entry-without-line", via), "every list item that names a file of the findings carries one of its lines".into(), format!("{:?}", p.lineless));
        }
        if !p.orphans.is_empty() {
            push(format!("{}:entry-before-any-section", via), "every entry follows the section of its pattern".into(), format!("{:?}", p.orphans));
        }
        for (pat, w) in &want {
            let g = got.get(pat).cloned().unwrap_or_default();
            if &g != w {
                let kind = if g.len() < w.len() { "lost" } else if g.len() > w.len() { "extra" } else { "changed" };
                push(format!("{}:{}:entries-{}", via, tb.name[pat], kind), format!("entries {:?} under the section of {}", w, tb.name[pat]), format!("{:?}", g));
            }
        }
        for (pat, g) in &got {
            if !want.contains_key(pat) && !g.is_empty() {
                push(format!("{}:{}:entries-misattributed", via, tb.name[pat]), format!("no entries under {}", tb.name[pat]), format!("{:?}", g));
            }
        }
        // section present iff the pattern has findings (exactly once)
        for pat in tb.section.keys() {
            if tb.section[pat].trim().is_empty() {
                continue;
            }
            let n = p.sections.iter().filter(|(_, q)| q == pat).count();
            let should = want.contains_key(pat);
            let relevant = match (via, pat) {
                ("vulnerability_report", Pat::V(_)) | ("optimization_report", Pat::O(_)) | ("qa_report", Pat::Q(_)) | ("generate_report", _) => true,
                _ => !should,
            };
            if relevant && ((should && n != 1) || (!should && n != 0)) {
                push(format!("{}:{}:section-{}", via, tb.name[pat], if should { "missing-or-repeated" } else { "spurious" }), format!("section of {} present {} time(s)", tb.name[pat], if should { 1 } else { 0 }), format!("{} time(s)", n));
            }
        }
    } else {
        // ---- C12: totals
        let v_entries: i64 = want.iter().filter(|(k, _)| matches!(k, Pat::V(_))).map(|(_, v)| v.len() as i64).sum();
        let o_entries: i64 = want.iter().filter(|(k, _)| matches!(k, Pat::O(_))).map(|(_, v)| v.len() as i64).sum();
        let shown_v: i64 = p.entries.iter().filter(|(k, _)| matches!(k, Pat::V(_))).map(|(_, v)| v.len() as i64).sum();
        let shown_o: i64 = p.entries.iter().filter(|(k, _)| matches!(k, Pat::O(_))).map(|(_, v)| v.len() as i64).sum();
        let tot_v: Vec<i64> = p.totals.iter().filter(|(_, w, _)| w.to_lowercase().starts_with('v')).map(|x| x.2).collect();
        let tot_o: Vec<i64> = p.totals.iter().filter(|(_, w, _)| w.to_lowercase().starts_with('o')).map(|x| x.2).collect();
        let has = |items: &Vec<(usize, Files)>| items.iter().any(|(_, fs)| fs.iter().any(|(_, l)| !l.is_empty()));
        let (v_has, o_has, q_has) = (has(&m.v), has(&m.o), has(&m.q));
        // entries listed before the first pattern section are entries of the part they stand in (the first part present)
        let orphans = p.orphans.len() as i64;
        let (shown_v, shown_o) = if orphans == 0 {
            (shown_v, shown_o)
        } else if via == "vulnerability_report" || (via == "generate_report" && v_has) {
            (shown_v + orphans, shown_o)
        } else if via == "optimization_report" || (via == "generate_report" && o_has) {
            (shown_v, shown_o + orphans)
        } else {
            (shown_v, shown_o)
        };
        let v_part = via == "vulnerability_report" || (via == "generate_report" && v_has);
        let o_part = via == "optimization_report" || (via == "generate_report" && o_has);
        if v_part {
            // a generator called directly for a category without findings may render an overview with total 0 or nothing
            let nothing = via == "vulnerability_report" && !v_has && shown_v == 0 && tot_v.is_empty();
            // the total may be printed more than once (a table of contents that repeats the overview heading): every
            // printed total must equal the number of entries
            if !nothing && (tot_v.is_empty() || tot_v.iter().any(|t| *t != shown_v)) {
                push(format!("{}:total-vulnerabilities", via), format!("a total equal to the {} entries listed in the vulnerability part", shown_v), format!("{:?}", tot_v));
            }
        } else if via == "generate_report" && (!tot_v.is_empty()) {
            push(format!("{}:vulnerability-part-without-findings", via), "no vulnerability part".into(), format!("totals {:?}", tot_v));
        }
        if o_part {
            let nothing = via == "optimization_report" && !o_has && shown_o == 0 && tot_o.is_empty();
            if !nothing && (tot_o.is_empty() || tot_o.iter().any(|t| *t != shown_o)) {
                push(format!("{}:total-optimizations", via), format!("a total equal to the {} entries listed in the optimization part", shown_o), format!("{:?}", tot_o));
            }
        } else if via == "generate_report" && (!tot_o.is_empty()) {
            push(format!("{}:optimization-part-without-findings", via), "no optimization part".into(), format!("totals {:?}", tot_o));
        }
        let _ = (v_entries, o_entries);
        // category part present iff the category has findings (generate_report only)
        if via == "generate_report" {
            let has = |f: fn(&Pat) -> bool| p.sections.iter().any(|(_, q)| f(q));
            let vq = has(|q| matches!(q, Pat::V(_)));
            let oq = has(|q| matches!(q, Pat::O(_)));
            let qq = has(|q| matches!(q, Pat::Q(_)));
            if vq != v_has || (tot_v.is_empty() == v_has) {
                push("generate_report:vulnerability-part-presence".into(), format!("present = {}", v_has), format!("sections {} totals {:?}", vq, tot_v));
            }
            if oq != o_has || (tot_o.is_empty() == o_has) {
                push("generate_report:optimization-part-presence".into(), format!("present = {}", o_has), format!("sections {} totals {:?}", oq, tot_o));
            }
            if qq != q_has {
                push("generate_report:qa-part-presence".into(), format!("present = {}", q_has), format!("sections {}", qq));
            }
        }
        // severity headings
        if via == "vulnerability_report" || via == "generate_report" {
            let mut want_sev: BTreeSet<&'static str> = BTreeSet::new();
            for (i, fs) in &m.v {
                if fs.iter().any(|(_, l)| !l.is_empty()) {
                    let sev = severity_of(&tb.name[&Pat::V(*i)]);
                    if sev != "?" {
                        want_sev.insert(sev);
                    } else {
                        // a vulnerability pattern the property does not name: its severity is whatever heading its
                        // section stands under in this report
                        for (pos, pat) in &p.sections {
                            if *pat == Pat::V(*i) {
                                if let Some(h) = p.severity_headings.iter().filter(|(hp, _)| hp < pos).last() {
                                    want_sev.insert(h.1);
                                }
                            }
                        }
                    }
                }
            }
            let got_sev: Vec<&'static str> = p.severity_headings.iter().map(|x| x.1).collect();
            let got_set: BTreeSet<&'static str> = got_sev.iter().copied().collect();
            if got_set != want_sev || got_sev.len() != got_set.len() {
                let missing: Vec<_> = want_sev.difference(&got_set).collect();
                let surplus: Vec<_> = got_set.difference(&want_sev).collect();
                push(
                    format!("{}:severity-headings:{}", via, if !surplus.is_empty() { format!("surplus-{}", surplus[0]) } else if !missing.is_empty() { format!("missing-{}", missing[0]) } else { "repeated".to_string() }),
                    format!("severity headings {:?}, each once", want_sev),
                    format!("{:?}", got_sev),
                );
            }
            // each vulnerability section between its own severity heading and the next one
            for (pos, pat) in &p.sections {
                if let Pat::V(_) = pat {
                    let sev = severity_of(&tb.name[pat]);
                    let before = p.severity_headings.iter().filter(|(hp, _)| hp < pos).last();
                    if sev != "?" && before.map(|x| x.1) != Some(sev) {
                        push(format!("{}:{}:under-wrong-heading", via, tb.name[pat]), format!("listed under the {} heading", sev), format!("preceding severity heading: {:?}", before.map(|x| x.1)));
                    }
                }
            }
        }
    }
}

// ------------------------------------------------------------------------------ findings maps

fn lines_of(k: usize) -> BTreeSet<i32> {
    match k % 6 {
        0 => [1].into_iter().collect(),
        1 => [1, 2, 10].into_iter().collect(),
        2 => [0].into_iter().collect(),
        3 => [2147483647].into_iter().collect(),
        4 => [-1, -7, i32::MIN, 5].into_iter().collect(),
        _ => [7, 8].into_iter().collect(),
    }
}
const NAMES: &[&str] = &["A.sol", "a b.sol", "x:9.sol", "é.sol", "- y.sol", "## High Risk.sol", "A.sol", "B.sol:4", "Total Optimizations 9.sol", "Vault<T>.sol", "a&b.sol", "*bold*.sol", "[x](y).sol", "back`tick.sol", "tab\tname.sol", "Deploy.s.sol", "Invariant.t.sol", "Handler.T.SOL", "x.sol.bak"];

/// names that look like placeholders of a template / format string, and names with digit runs (small, large, beyond
/// u32 / u64, non-ASCII numerals) that a "natural order" comparison would parse
pub const NAMES2: &[&str] = &[
    "Pipe{line}.sol", "{file}.sol", "{}.sol", "{0}.sol", "%s.sol", "%d.sol", "$1.sol", "\\1.sol", "${line}.sol", "{{line}}.sol",
    "Token2.sol", "Token10.sol", "Vault_flat_1695731234567.sol", "Vault_flat_1695731299999.sol", "V18446744073709551616.sol", "V18446744073709551617.sol",
    "9_Vault.sol", "10_Router.sol", "1InchAdapter.sol", "m\u{b2}.sol", "\u{663}.sol", "007.sol", "7.sol",
];

fn files_variant(k: usize, nfiles: usize) -> Files {
    (0..nfiles).map(|j| (NAMES[(k + j * 3) % NAMES.len()].to_string(), lines_of(k + j))).collect()
}

/// the findings-map space of C11 / C12
pub fn map_space(tb: &Tables, tier: Tier) -> Vec<Maps> {
    let mut out = Vec::new();
    let nv = tb.vulns.len();
    let no = tb.opts.len();
    let nq = tb.qas.len();
    let file_counts: &[usize] = if tier == Tier::Quick { &[1, 2, 3] } else { &[1, 2, 3, 4, 5] };
    let mut k = 0usize;
    // vulnerabilities: all subsets x files 1..3 (thorough: 1..5) x variants
    for mask in 0u32..(1 << nv) {
        for &nf in file_counts {
            for var in 0..(if tier == Tier::Quick { 3 } else { 27 }) {
                k += 1;
                let v: Vec<(usize, Files)> = (0..nv).filter(|i| mask & (1 << i) != 0).map(|i| (i, files_variant(k + i + var, nf))).collect();
                out.push(Maps { v, o: vec![], q: vec![] });
            }
        }
    }
    // same file name twice with overlapping and with identical line sets
    for i in 0..nv {
        let dup: Files = vec![("Token.sol".into(), [4, 9].into_iter().collect()), ("Token.sol".into(), [4].into_iter().collect()), ("Token.sol".into(), [4, 9].into_iter().collect())];
        out.push(Maps { v: vec![(i, dup.clone())], o: vec![], q: vec![] });
        out.push(Maps { v: vec![], o: vec![(i, dup.clone()), (no - 1 - i, dup.clone())], q: vec![] });
        out.push(Maps { v: vec![], o: vec![], q: vec![(i % nq, dup)] });
    }
    // keys that carry no finding: an empty file list, or files with empty line sets; such a pattern has
    // no findings, so neither a section nor an entry may appear for it
    for i in 0..nv.max(nq) {
        let empty_files: Files = vec![];
        let empty_lines: Files = vec![("Empty.sol".into(), BTreeSet::new())];
        let real: Files = files_variant(i, 2);
        out.push(Maps { v: vec![(i % nv, empty_files.clone())], o: vec![], q: vec![] });
        out.push(Maps { v: vec![(i % nv, empty_files.clone()), ((i + 1) % nv, real.clone())], o: vec![], q: vec![] });
        out.push(Maps { v: vec![], o: vec![(i, empty_files.clone()), (i + 3, real.clone()), (i + 5, empty_lines.clone())], q: vec![] });
        out.push(Maps { v: vec![], o: vec![], q: vec![(i % nq, empty_files.clone())] });
        out.push(Maps { v: vec![], o: vec![], q: vec![(i % nq, empty_lines.clone()), ((i + 1) % nq, real.clone())] });
        out.push(Maps { v: vec![(i % nv, real.clone())], o: vec![(i, empty_files.clone())], q: vec![((i + 2) % nq, empty_files.clone())] });
    }
    // one pattern whose files mix empty and non-empty line sets; very many findings for one pattern
    for i in 0..nv.max(nq) {
        let mixed: Files = vec![("Vault.sol".into(), BTreeSet::new()), ("Wallet.sol".into(), [7].into_iter().collect()), ("Zed.sol".into(), BTreeSet::new())];
        out.push(Maps { v: vec![(i % nv, mixed.clone())], o: vec![], q: vec![] });
        out.push(Maps { v: vec![], o: vec![(i * 3, mixed.clone())], q: vec![] });
        out.push(Maps { v: vec![], o: vec![], q: vec![(i % nq, mixed.clone())] });
    }
    // names that are prefixes / extensions of one another in CONSECUTIVE patterns (the last file of one section, the first of the
    // next), in both orders; names with quote characters, a backslash, a control character
    {
        let one = |n: &str, l: i32| -> Files { vec![(n.to_string(), [l].into_iter().collect())] };
        for (a, b) in [("Vault.sol.old.sol", "Vault.sol"), ("Vault.sol", "Vault.sol.old.sol"), ("Vault.sol", "Vault.sol"), ("V.sol:1", "V.sol"), ("", "A.sol"), ("A.sol", "")] {
            for i in 0..nq {
                out.push(Maps { v: vec![], o: vec![], q: vec![(i, one(a, 3)), ((i + 1) % nq, one(b, 5))] });
            }
            for i in 0..nv {
                out.push(Maps { v: vec![(i, one(a, 3)), ((i + 1) % nv, one(b, 5))], o: vec![], q: vec![] });
            }
            for i in 0..no {
                out.push(Maps { v: vec![], o: vec![(i, one(a, 3)), ((i + 1) % no, one(b, 5))], q: vec![] });
            }
        }
        for (k, n) in ["Owner's.sol", "\"quoted\".sol", "back\\slash.sol", "bell\u{7}.sol", "nul\u{0}.sol", "trailing .sol", " leading.sol", "dot..sol", "semi;colon.sol", "percent%41.sol", "amp&amp;.sol", "<b>.sol", "./A.sol", "././B.sol", "../C.sol", "/abs/D.sol", "dir/E.sol", "dir/./F.sol", "~/G.sol", "C:\\H.sol"].iter().enumerate() {
            out.push(Maps { v: vec![(k % nv, one(n, 2))], o: vec![(k % no, one(n, 2))], q: vec![(k % nq, one(n, 2))] });
        }
    }
    // the number of entries of ONE (pattern, file) and of one category on both sides of 16 bits
    for (nfiles, nlines) in [(1usize, 65_536usize), (2, 40_000)] {
        let many: Files = (0..nfiles).map(|f| (format!("Big{}.sol", f), (1..=nlines as i32).collect())).collect();
        out.push(Maps { v: vec![(nfiles % nv, many.clone())], o: vec![], q: vec![] });
        out.push(Maps { v: vec![], o: vec![(nfiles % no, many.clone())], q: vec![(nfiles % nq, many)] });
    }
    for (nfiles, nlines) in [(1usize, 1001usize), (3, 1100), (101, 1), (150, 2), (1200, 1)] {
        let many: Files = (0..nfiles).map(|f| (format!("F{:04}.sol", f), (1..=nlines as i32).map(|l| l * 3).collect())).collect();
        out.push(Maps { v: vec![], o: vec![(nfiles % no, many.clone())], q: vec![] });
        out.push(Maps { v: vec![(nfiles % nv, many.clone())], o: vec![], q: vec![(nfiles % nq, many)] });
    }
    // QA: all subsets
    for mask in 0u32..(1 << nq) {
        for &nf in file_counts {
            k += 1;
            let q: Vec<(usize, Files)> = (0..nq).filter(|i| mask & (1 << i) != 0).map(|i| (i, files_variant(k + i, nf))).collect();
            out.push(Maps { v: vec![], o: vec![], q });
        }
    }
    // optimizations: empty, singletons, pairs, full
    out.push(Maps { v: vec![], o: vec![], q: vec![] });
    for a in 0..no {
        for &nf in file_counts {
            k += 1;
            out.push(Maps { v: vec![], o: vec![(a, files_variant(k, nf))], q: vec![] });
        }
        for b in (a + 1)..no {
            k += 1;
            out.push(Maps { v: vec![], o: vec![(a, files_variant(k, 1 + k % 3)), (b, files_variant(k + 1, 1 + (k / 3) % 3))], q: vec![] });
        }
    }
    for var in 0..3 {
        out.push(Maps { v: vec![], o: (0..no).map(|i| (i, files_variant(i + var, 1 + (i + var) % 3))).collect(), q: vec![] });
    }
    // the same (file, line) is a finding of several patterns at once (one source line often matches two patterns):
    // every pair of patterns of a category with identical, with overlapping and with nested findings; all patterns
    // of a category with the same findings; the same findings in all three categories
    {
        let same: Files = vec![("Pool.sol".into(), [12, 40].into_iter().collect()), ("Vault.sol".into(), [7].into_iter().collect())];
        let over: Files = vec![("Pool.sol".into(), [12, 18].into_iter().collect()), ("Zed.sol".into(), [7].into_iter().collect())];
        let sub: Files = vec![("Pool.sol".into(), [12].into_iter().collect())];
        for (n, cat) in [(nv, 0), (no, 1), (nq, 2)] {
            let mk = |items: Vec<(usize, Files)>| match cat {
                0 => Maps { v: items, o: vec![], q: vec![] },
                1 => Maps { v: vec![], o: items, q: vec![] },
                _ => Maps { v: vec![], o: vec![], q: items },
            };
            for a in 0..n {
                for b in 0..n {
                    if a == b {
                        continue;
                    }
                    if a < b {
                        out.push(mk(vec![(a, same.clone()), (b, same.clone())]));
                    }
                    out.push(mk(vec![(a, same.clone()), (b, over.clone())]));
                    out.push(mk(vec![(a, same.clone()), (b, sub.clone())]));
                }
            }
            out.push(mk((0..n).map(|i| (i, same.clone())).collect()));
            out.push(mk((0..n).map(|i| (i, if i % 2 == 0 { same.clone() } else { sub.clone() })).collect()));
        }
        out.push(Maps { v: (0..nv).map(|i| (i, same.clone())).collect(), o: (0..no).map(|i| (i, same.clone())).collect(), q: (0..nq).map(|i| (i, same.clone())).collect() });
    }
    // relations between the line values of one file: runs of adjacent lines (2, 3, 5, two runs), the lines 0 / 1 / i32::MAX,
    // every pattern once
    {
        let runs: Files = vec![
            ("Config.sol".into(), [7, 8, 9].into_iter().collect()),
            ("Run.sol".into(), [1, 2, 3, 4, 5, 9, 10, 11, 12].into_iter().collect()),
            ("Pair.sol".into(), [3, 4].into_iter().collect()),
            ("Edge.sol".into(), [0, 1, i32::MAX - 1, i32::MAX].into_iter().collect()),
        ];
        for i in 0..nv {
            out.push(Maps { v: vec![(i, runs.clone())], o: vec![], q: vec![] });
        }
        for i in 0..no {
            out.push(Maps { v: vec![], o: vec![(i, runs.clone())], q: vec![] });
        }
        for i in 0..nq {
            out.push(Maps { v: vec![], o: vec![], q: vec![(i, runs.clone())] });
        }
        out.push(Maps { v: (0..nv).map(|i| (i, runs.clone())).collect(), o: (0..no).map(|i| (i, runs.clone())).collect(), q: (0..nq).map(|i| (i, runs.clone())).collect() });
    }
    // special names alone and in ordered pairs, one pattern of each category (rotating)
    {
        let mut r = 0usize;
        for (ia, a) in NAMES2.iter().enumerate() {
            for (ib, b) in NAMES2.iter().enumerate() {
                let files: Files = if ia == ib { vec![(a.to_string(), [3, 14].into_iter().collect())] } else { vec![(a.to_string(), [3, 14].into_iter().collect()), (b.to_string(), [14].into_iter().collect())] };
                r += 1;
                match r % 3 {
                    0 => out.push(Maps { v: vec![(r % nv, files)], o: vec![], q: vec![] }),
                    1 => out.push(Maps { v: vec![], o: vec![(r % no, files)], q: vec![] }),
                    _ => out.push(Maps { v: vec![], o: vec![], q: vec![(r % nq, files)] }),
                }
            }
        }
    }
    // thorough: ordered triples of the special names under one pattern
    if tier == Tier::Thorough {
        let mut r = 0usize;
        for a in NAMES2 {
            for b in NAMES2 {
                for c in NAMES2 {
                    if a == b || b == c || a == c {
                        continue;
                    }
                    let files: Files = vec![(a.to_string(), [3].into_iter().collect()), (b.to_string(), [3, 4].into_iter().collect()), (c.to_string(), [14].into_iter().collect())];
                    r += 1;
                    match r % 3 {
                        0 => out.push(Maps { v: vec![(r % nv, files)], o: vec![], q: vec![] }),
                        1 => out.push(Maps { v: vec![], o: vec![(r % no, files)], q: vec![] }),
                        _ => out.push(Maps { v: vec![], o: vec![], q: vec![(r % nq, files)] }),
                    }
                }
            }
        }
    }
    // all 8 presence combinations of the three categories (through generate_report)
    for mask in 0u32..8 {
        for var in 0..(if tier == Tier::Quick { 4 } else { 64 }) {
            let v = if mask & 1 != 0 { vec![(var % nv, files_variant(var, 1 + var % 2))] } else { vec![] };
            let o = if mask & 2 != 0 { vec![((var * 5) % no, files_variant(var + 1, 1)), ((var * 5 + 7) % no, files_variant(var + 2, 2))] } else { vec![] };
            let q = if mask & 4 != 0 { vec![(var % nq, files_variant(var + 3, 1 + var % 3))] } else { vec![] };
            let mut o = o;
            o.dedup_by_key(|x| x.0);
            out.push(Maps { v, o, q });
        }
    }
    out
}

fn render_all(m: &Maps, tb: &Tables, scratch: Option<&std::path::Path>) -> Vec<(&'static str, Result<String, String>)> {
    let mut v = Vec::new();
    if m.o.is_empty() && m.q.is_empty() {
        v.push(("vulnerability_report", util::guarded(|| generate_vulnerability_report(hm(&tb.vulns, &m.v)))));
    }
    if m.v.is_empty() && m.q.is_empty() {
        v.push(("optimization_report", util::guarded(|| generate_optimization_report(hm(&tb.opts, &m.o)))));
    }
    if m.v.is_empty() && m.o.is_empty() {
        v.push(("qa_report", util::guarded(|| generate_qa_report(hm(&tb.qas, &m.q)))));
    }
    if let Some(dir) = scratch {
        // generate_report writes solstat_report.md into the working directory
        let path = dir.join("solstat_report.md");
        // the report left by the previous rendering stays in place (the sequence of maps is a history);
        // a marker is appended to it so that "not written at all" is distinguishable from "written"
        if let Ok(mut f) = std::fs::OpenOptions::new().append(true).open(&path) {
            use std::io::Write;
            let _ = f.write_all(b"\n<!-- stale marker left by the harness -->\n- Stale.sol:424242\n");
        }
        let r = util::guarded(|| generate_report(hm(&tb.vulns, &m.v), hm(&tb.opts, &m.o), hm(&tb.qas, &m.q)));
        let res = match r {
            Err(e) => Err(e),
            Ok(()) => match std::fs::read_to_string(&path) {
                Err(_) => Err("generate_report returned but solstat_report.md does not exist in the working directory".to_string()),
                Ok(t) if t.contains("stale marker left by the harness") => Err("generate_report returned but the report of the previous run is still there (not replaced): solstat_report.md does not exist as a fresh report".to_string()),
                Ok(t) => Ok(t),
            },
        };
        v.push(("generate_report", res));
    }
    v
}

pub fn scratch_dir(tag: &str) -> std::path::PathBuf {
    let base = if std::path::Path::new("/dev/shm").is_dir() { "/dev/shm".to_string() } else { "/verif/.build/scratch".to_string() };
    let d = std::path::PathBuf::from(format!("{}/solstat-mc.{}.{}", base, std::process::id(), tag));
    let _ = std::fs::remove_dir_all(&d);
    std::fs::create_dir_all(&d).expect("cannot create scratch directory");
    d
}

fn self_check_sections(tb: &Tables, run: &mut Run) {
    // section texts must be pairwise non-overlapping for the parse-back to be sound
    let texts: Vec<(&Pat, &String)> = tb.section.iter().filter(|(_, t)| !t.trim().is_empty()).collect();
    for (i, (a, ta)) in texts.iter().enumerate() {
        for (j, (b, tb_)) in texts.iter().enumerate() {
            if i != j && ta.contains(tb_.as_str()) {
                run.assume(&format!("section text of {:?} contains that of {:?}: attribution between them is ambiguous", a, b));
            }
        }
    }
}

pub fn c11_c12(property: &str, tier: Tier) -> i32 {
    util::quiet();
    let c11 = property == "C11";
    let mut run = Run::new(property, if tier == Tier::Quick { "quick" } else { "thorough" });
    let tb = tables();
    self_check_sections(&tb, &mut run);
    let space = map_space(&tb, tier);
    let dir = scratch_dir(property);
    let old = std::env::current_dir().ok();
    std::env::set_current_dir(&dir).expect("cannot enter scratch directory");
    let mut renderings = 0u64;
    let mut validated = 0u64;
    let mut distinct: HashSet<u64> = HashSet::new();
    let mut vs = Vec::new();
    for m in &space {
        for (via, rep) in render_all(m, &tb, Some(&dir)) {
            renderings += 1;
            match rep {
                Ok(r) => {
                    validated += 1;
                    distinct.insert(util::fnv(&r));
                    check_report(&r, m, &tb, via, c11, &mut vs);
                }
                Err(e) => vs.push(Violation {
                    site: format!("{}:{}", via, if e.contains("does not exist") { "no-report-file" } else { "panic" }),
                    input: describe_maps(m, &tb),
                    expected: "a report".into(),
                    observed: e,
                    size: describe_maps(m, &tb).len(),
                    unit_test: String::new(),
                    extra: json!({}),
                }),
            }
        }
    }
    if let Some(o) = old {
        let _ = std::env::set_current_dir(o);
    }
    let _ = std::fs::remove_dir_all(&dir);
    run.merge_violations(vs);
    // (C12) the command-line program: parts, totals and headings of the report are those of THIS run
    if !c11 {
        let (bvs, bruns) = crate::binx::report_follows_this_run(property);
        run.merge_violations(bvs);
        run.set("binary_runs_in_shared_working_directories", bruns);
        if bruns == 0 {
            run.machinery("SOLSTAT_BIN (unhooked binary) not found".into());
        }
    }
    run.set("states", space.len() as u64);
    run.set("transitions", renderings);
    run.set("traces_validated_against_impl", validated);
    run.set("evaluations", renderings);
    run.set("distinct_nontrivial", distinct.len() as u64);
    run.set(
        "rule",
        "states = findings maps: all 16 vulnerability subsets x files 1..3 x line/name variants, all 8 QA subsets, optimisation singletons / all pairs / full / empty, same file name repeated with overlapping and identical line sets, all 8 category-presence combinations; file names include blanks, colons, non-ASCII, list-item and heading look-alikes; transitions = renderings through generate_vulnerability_report / generate_optimization_report / generate_qa_report and generate_report (report file read back from a scratch working directory); oracle = tolerant parse-back (section texts taken from get_*_report_section of the same build); non-trivial = distinct report texts",
    );
    run.set("bound_completed", if tier == Tier::Quick { "files per pattern <= 3" } else { "files per pattern <= 5; ordered triples of 23 special names" });
    run.set("samples", json!(space.iter().step_by(space.len() / 3 + 1).take(3).map(|m| describe_maps(m, &tb)).collect::<Vec<_>>()));
    run.assume("file names contain no line breaks (as the property states)");
    run.finish()
}

// ======================================================================================= C13

/// all permutations of 0..n
pub fn permutations(n: usize) -> Vec<Vec<usize>> {
    fn rec(cur: &mut Vec<usize>, used: &mut Vec<bool>, n: usize, out: &mut Vec<Vec<usize>>) {
        if cur.len() == n {
            out.push(cur.clone());
            return;
        }
        for i in 0..n {
            if !used[i] {
                used[i] = true;
                cur.push(i);
                rec(cur, used, n, out);
                cur.pop();
                used[i] = false;
            }
        }
    }
    let mut out = Vec::new();
    rec(&mut Vec::new(), &mut vec![false; n], n, &mut out);
    out
}

/// Build fresh HashMaps for `keys` until every iteration order has been witnessed.
/// Returns one map per distinct order (values filled by `val`).
fn maps_in_all_orders<K: std::hash::Hash + Eq + Copy + std::fmt::Debug, V: Clone>(keys: &[K], val: &dyn Fn(usize) -> V) -> (Vec<HashMap<K, V>>, bool) {
    let n = keys.len();
    let target: usize = (1..=n).product::<usize>().max(1);
    let mut seen: HashMap<Vec<usize>, HashMap<K, V>> = HashMap::new();
    let perms = permutations(n);
    let mut attempts = 0usize;
    while seen.len() < target && attempts < 4000 * target {
        let ins = &perms[attempts % perms.len()];
        let mut m: HashMap<K, V> = if attempts % 3 == 0 { HashMap::with_capacity(1 + attempts % 64) } else { HashMap::new() };
        for &i in ins {
            m.insert(keys[i], val(i));
        }
        // the order a consumer will see: a clone preserves table layout and hasher
        let order: Vec<usize> = m.clone().into_iter().map(|(k, _)| keys.iter().position(|x| *x == k).unwrap()).collect();
        seen.entry(order).or_insert(m);
        attempts += 1;
    }
    let complete = seen.len() == target;
    (seen.into_values().collect(), complete)
}

fn c13_one<K: std::hash::Hash + Eq + Copy + std::fmt::Debug>(
    keys: &[K],
    files: &[Files],
    render: &dyn Fn(HashMap<K, Files>) -> String,
    label: &str,
    vs: &mut Vec<Violation>,
    stats: &mut (u64, u64, u64, bool),
) {
    // file-order permutations of every pattern's vector, crossed with all iteration orders
    let mut file_orders: Vec<Vec<Files>> = vec![vec![]];
    for f in files {
        let perms = permutations(f.len());
        let mut next = Vec::new();
        for base in &file_orders {
            for p in &perms {
                let mut b = base.clone();
                b.push(p.iter().map(|&i| f[i].clone()).collect());
                next.push(b);
            }
        }
        file_orders = next;
    }
    let mut first: Option<String> = None;
    let mut orders_seen = 0u64;
    for fo in &file_orders {
        let (maps, complete) = maps_in_all_orders(keys, &|i| fo[i].clone());
        if !complete {
            stats.3 = false;
        }
        orders_seen = maps.len() as u64;
        for m in maps {
            stats.1 += 1;
            let order: Vec<K> = m.clone().into_keys().collect();
            let r = match util::guarded(|| render(m)) {
                Ok(r) => r,
                Err(e) => {
                    vs.push(Violation { site: format!("{}:panic", label), input: format!("{:?}", keys), expected: "a report".into(), observed: e, size: 0, unit_test: String::new(), extra: json!({}) });
                    continue;
                }
            };
            match &first {
                None => first = Some(r),
                Some(f0) => {
                    if *f0 != r {
                        let same_files = fo == &file_orders[0];
                        vs.push(Violation {
                            site: format!("{}:{}", label, if same_files { "map-iteration-order" } else { "file-discovery-order" }),
                            input: format!("patterns {:?} files {:?}", keys, files),
                            expected: "byte-identical report for every iteration order of the findings map and every discovery order of the files".into(),
                            observed: format!("iteration order {:?} with file order {:?} renders differently from the first rendering", order, fo),
                            size: keys.len() * 100 + files.iter().map(|f| f.len()).sum::<usize>(),
                            unit_test: String::new(),
                            extra: json!({"first": f0, "other": r}),
                        });
                    }
                }
            }
        }
    }
    stats.0 += 1;
    stats.2 += orders_seen;
}

pub fn c13(tier: Tier) -> i32 {
    util::quiet();
    let mut run = Run::new("C13", if tier == Tier::Quick { "quick" } else { "thorough" });
    let tb = tables();
    let mut vs = Vec::new();
    let mut stats = (0u64, 0u64, 0u64, true); // sets, renderings, orders of last set, all orders witnessed
    let f = |k: usize, n: usize| -> Files {
        // same file name in two directories with different line sets is part of the alphabet
        let pool: Vec<(String, BTreeSet<i32>)> = vec![
            ("Token.sol".into(), [12, 40].into_iter().collect()),
            ("Token.sol".into(), [7].into_iter().collect()),
            ("Vault.sol".into(), [3].into_iter().collect()),
            ("a.sol".into(), [1, 2].into_iter().collect()),
        ];
        (0..n).map(|j| pool[(k + j) % pool.len()].clone()).collect()
    };
    let maxk = if tier == Tier::Quick { 4 } else { 8 };
    // vulnerabilities: every subset of size >= 1
    let nv = tb.vulns.len();
    for mask in 1u32..(1 << nv) {
        let keys: Vec<Vulnerability> = (0..nv).filter(|i| mask & (1 << i) != 0).map(|i| tb.vulns[i]).collect();
        let files: Vec<Files> = (0..keys.len()).map(|i| f(i, if i == 0 { 3 } else { 1 + i % 2 })).collect();
        c13_one(&keys, &files, &|m| generate_vulnerability_report(m), "vulnerability_report", &mut vs, &mut stats);
    }
    let nq = tb.qas.len();
    for mask in 1u32..(1 << nq) {
        let keys: Vec<QualityAssurance> = (0..nq).filter(|i| mask & (1 << i) != 0).map(|i| tb.qas[i]).collect();
        let files: Vec<Files> = (0..keys.len()).map(|i| f(i + 1, if i == 0 { 3 } else { 1 })).collect();
        c13_one(&keys, &files, &|m| generate_qa_report(m), "qa_report", &mut vs, &mut stats);
    }
    // optimizations: windows of k consecutive patterns (cyclic), k = 2..maxk, plus spread subsets
    let no = tb.opts.len();
    for k in 2..=maxk {
        for start in 0..no {
            if k >= 4 && start % (if tier == Tier::Quick { 6 } else if k == 8 { 10 } else if k == 7 { 6 } else if k == 6 { 3 } else { 2 }) != 0 {
                continue;
            }
            let keys: Vec<Optimization> = (0..k).map(|j| tb.opts[(start + j * (1 + start % 3)) % no]).collect();
            let uniq: HashSet<String> = keys.iter().map(|x| format!("{:?}", x)).collect();
            if uniq.len() != keys.len() {
                continue;
            }
            let files: Vec<Files> = (0..k).map(|i| f(i + start, if i == 0 { 2 + (start % 2) } else { 1 })).collect();
            c13_one(&keys, &files, &|m| generate_optimization_report(m), "optimization_report", &mut vs, &mut stats);
        }
    }
    // one pattern, three files whose names a "smarter" ordering could compare inconsistently (numbered prefixes, digit
    // runs, letter case, non-ASCII): every 3-subset of the alphabet in all 6 discovery orders, each generator
    {
        let alphabet = ["9_Vault.sol", "10_Router.sol", "1InchAdapter.sol", "2_Owner.sol", "Token2.sol", "Token10.sol", "token.sol", "Token.sol", "_a.sol", "a.sol", "A.sol", "\u{e9}.sol", "Z.sol", "15.sol"];
        let one: BTreeSet<i32> = [5].into_iter().collect();
        for a in 0..alphabet.len() {
            for b in (a + 1)..alphabet.len() {
                for c in (b + 1)..alphabet.len() {
                    if tier == Tier::Quick && (a + b + c) % 2 == 1 && !(a < 4 && b < 4) {
                        continue;
                    }
                    let files: Vec<Files> = vec![vec![(alphabet[a].to_string(), one.clone()), (alphabet[b].to_string(), one.clone()), (alphabet[c].to_string(), one.clone())]];
                    match (a + b + c) % 3 {
                        0 => c13_one(&[tb.vulns[(a + b) % nv]], &files, &|m| generate_vulnerability_report(m), "vulnerability_report", &mut vs, &mut stats),
                        1 => c13_one(&[tb.opts[(a + b) % no]], &files, &|m| generate_optimization_report(m), "optimization_report", &mut vs, &mut stats),
                        _ => c13_one(&[tb.qas[(a + b) % nq]], &files, &|m| generate_qa_report(m), "qa_report", &mut vs, &mut stats),
                    }
                }
            }
        }
    }
    // very many files for one pattern: forward, reversed and rotated discovery orders through generate_report
    {
        let dir = scratch_dir("c13many");
        let old = std::env::current_dir().ok();
        std::env::set_current_dir(&dir).expect("cannot enter scratch directory");
        for n in [2usize, 100, 101, 150, 1001] {
            let base: Files = (0..n).map(|f| (format!("F{:04}.sol", (f * 7919) % 10007), [(f % 5) as i32 + 1].into_iter().collect())).collect();
            let mut orders: Vec<Files> = vec![base.clone(), base.iter().rev().cloned().collect()];
            let mut rot = base.clone();
            rot.rotate_left(n / 3 + 1);
            orders.push(rot);
            let mut first: Option<String> = None;
            for o in orders {
                let mut vm = HashMap::new();
                vm.insert(tb.vulns[0], o.clone());
                let mut om = HashMap::new();
                om.insert(tb.opts[n % tb.opts.len()], o.clone());
                let mut qm = HashMap::new();
                qm.insert(tb.qas[0], o);
                stats.1 += 1;
                if util::guarded(|| generate_report(vm, om, qm)).is_err() {
                    continue;
                }
                let text = std::fs::read_to_string(dir.join("solstat_report.md")).unwrap_or_default();
                match &first {
                    None => first = Some(text),
                    Some(f0) => {
                        if *f0 != text {
                            vs.push(Violation {
                                site: "generate_report:file-discovery-order:many-files".into(),
                                input: format!("{} files for one pattern in forward / reversed / rotated order", n),
                                expected: "byte-identical reports".into(),
                                observed: "reports differ".into(),
                                size: n,
                                unit_test: String::new(),
                                extra: json!({}),
                            });
                        }
                    }
                }
            }
            stats.0 += 1;
        }
        if let Some(o) = old {
            let _ = std::env::set_current_dir(o);
        }
        let _ = std::fs::remove_dir_all(&dir);
    }
    run.merge_violations(vs);
    if !stats.3 {
        run.set("exhaustive", false);
        run.machinery("not every iteration order of a findings map could be witnessed within the attempt cap".into());
    }
    // harness-side determinism self-test: the same map rendered twice gives the same text
    {
        let mut m = HashMap::new();
        m.insert(tb.vulns[0], f(0, 2));
        m.insert(tb.vulns[1], f(1, 1));
        let a = generate_vulnerability_report(m.clone());
        let b = generate_vulnerability_report(m);
        if a != b {
            run.machinery("rendering the same map instance twice gave different text".into());
        }
    }
    // ---- directory level: analyze_dir + generate_report under all listing permutations and pattern orders
    let dl = crate::fsx::c13_directory_level(tier);
    run.merge_violations(dl.violations);
    for e in dl.machinery {
        run.machinery(e);
    }
    {
        let (bvs, bruns) = crate::binx::report_follows_this_run("C13");
        run.merge_violations(bvs);
        run.set("binary_runs_in_shared_working_directories", bruns);
    }
    run.set("states", stats.1 + dl.states);
    run.set("transitions", stats.1 + dl.transitions);
    run.set("traces_validated_against_impl", dl.binary_runs);
    run.set("evaluations", stats.1 + dl.transitions);
    run.set("distinct_nontrivial", stats.0 + dl.distinct_reports);
    run.set("findings_sets", stats.0);
    run.set("renderings", stats.1);
    run.set("directory_level_states", dl.states);
    run.set("binary_reruns_sampled", dl.binary_runs);
    run.set(
        "rule",
        "states = (findings set, iteration order of the HashMap, discovery order of each pattern's files): for every set all n! iteration orders are witnessed by constructing fresh maps until each order has appeared (n <= 4 quick, 8 thorough), crossed with all permutations of the file vectors (same file name with different line sets included); directory level: analyze_dir + generate_report under every listing permutation of every directory (seam) and every order of the selected patterns; binary level (sampled, labelled): the unhooked binary run 3 times on the same directory; oracle = byte equality of all renderings of one findings set; non-trivial = findings sets + distinct directory-level reports",
    );
    run.set("bound_completed", format!("map keys <= {}; files per pattern <= 3; directory entries <= 4", maxk));
    run.set("samples", json!([{"patterns": ["UnsafeERC20Operation", "FloatingPragma"], "files": [["Token.sol", [12, 40]], ["Token.sol", [7]], ["Vault.sol", [3]]], "orders": 2, "file_orders": 6}]));
    run.assume("the 128-bit hash seed matters only through the iteration order it induces; all n! orders are enumerated instead of seeds");
    run.assume("binary-level re-runs are a sampled confirmation, not part of the deciding enumeration");
    run.finish()
}
