//! C05–C09: semantic agreement between the real detectors and the three-valued reference
//! detectors (DESIGN.md sections 5.3, 7 and 8) over Σ and the property-specific spaces.

use crate::corpus::{self, Tier};
use crate::dets;
use crate::ev::Run;
use crate::refdet::{self, Mode, Sweep};
use crate::util;
use crate::synth::*;
use serde_json::json;

/// decimal string of 2^k
pub fn pow2_dec(k: u32) -> String {
    let mut d: Vec<u32> = vec![1];
    for _ in 0..k {
        let mut carry = 0;
        for x in d.iter_mut() {
            let v = *x * 2 + carry;
            *x = v % 10;
            carry = v / 10;
        }
        if carry > 0 {
            d.push(carry);
        }
    }
    d.iter().rev().map(|x| char::from_digit(*x, 10).unwrap()).collect()
}

/// decimal string + small signed delta (empty string if the result would be negative)
pub fn dec_add(s: &str, delta: i32) -> String {
    let mut d: Vec<i32> = s.bytes().rev().map(|b| (b - b'0') as i32).collect();
    d[0] += delta;
    let mut i = 0;
    while i < d.len() {
        if d[i] < 0 {
            if i + 1 >= d.len() {
                return String::new();
            }
            d[i] += 10;
            d[i + 1] -= 1;
        } else if d[i] > 9 {
            d[i] -= 10;
            if i + 1 >= d.len() {
                d.push(0);
            }
            d[i + 1] += 1;
        } else {
            i += 1;
            continue;
        }
    }
    while d.len() > 1 && *d.last().unwrap() == 0 {
        d.pop();
    }
    d.iter().rev().map(|x| char::from_digit(*x as u32, 10).unwrap()).collect()
}

pub const C05_DETS: &[&str] = &[
    "address_balance",
    "address_zero",
    "bool_equals_bool",
    "assign_update_array_value",
    "cache_array_length",
    "increment_decrement",
    "multiple_require",
    "optimal_comparison",
    "shift_math",
    "solidity_keccak256",
    "solidity_math",
];
pub const C06_DETS: &[&str] = &["payable_function", "private_constant", "private_vars_leading_underscore", "private_func_leading_underscore", "constructor_order"];
pub const C07_DETS: &[&str] = &["unsafe_erc20_operation", "divide_before_multiply", "floating_pragma", "unprotected_selfdestruct"];
pub const C08_DETS: &[&str] = &["constant_variables", "immutable_variables", "memory_to_calldata", "sstore"];
pub const C09_DETS: &[&str] = &["safe_math_pre_080", "safe_math_post_080", "string_errors", "short_revert_string"];

pub fn absorb(run: &mut Run, sw: Sweep, family: &str) {
    for e in &sw.machinery {
        run.machinery(format!("[{}] {}", family, e));
    }
    run.add("states", sw.programs);
    run.add("transitions", sw.calls);
    run.add("traces_validated_against_impl", sw.validated);
    run.add("evaluations", sw.calls);
    run.add("distinct_nontrivial", sw.distinct_outcomes);
    run.add("reported_lines_checked", sw.reported_lines);
    let mut per = run.cov.get("per_detector").cloned().unwrap_or(json!({}));
    for (name, must, may, flagged) in &sw.stats {
        let key = format!("{}@{}", name, family);
        per[key] = json!({"programs_with_must": must, "programs_with_may_only": may, "programs_with_reports": flagged});
    }
    run.set("per_detector", per);
    // vacuity guard: a claimed detector whose canonical form never occurred in a family that is
    // supposed to contain it is a machinery error (checked by the caller through `require_must`)
    run.merge_violations(sw.violations);
}

pub fn require_must(run: &mut Run, sw: &Sweep, names: &[&str], family: &str) {
    for (name, must, _, _) in &sw.stats {
        if names.contains(&name.as_str()) && *must == 0 {
            run.machinery(format!("vacuous: no canonical instance of {} occurred in family {}", name, family));
        }
    }
}

pub fn finish(mut run: Run, rule: &str, bound: &str, samples: serde_json::Value) -> i32 {
    run.set("rule", rule);
    run.set("bound_completed", bound);
    run.set("samples", samples);
    run.assume("every generated program is accepted by the parser and carries a tree the generator predicted (validated per program)");
    run.assume("gray forms of DESIGN.md section 8 are accepted either way");
    run.finish()
}

pub fn c05(tier: Tier) -> i32 {
    util::quiet();
    let mut run = Run::new("C05", if tier == Tier::Quick { "quick" } else { "thorough" });
    let ds = dets::by_names(C05_DETS);
    if ds.len() != C05_DETS.len() {
        run.machinery("not all 11 detectors are addressable by their documented name".into());
    }
    let c = corpus::build(tier);
    let sw = refdet::sweep(&c, &ds, Mode::Semantic);
    require_must(&mut run, &sw, C05_DETS, "Σ");
    // boundary family: multiplications / divisions by 2^k and its neighbours, k = 0..256
    let mut items = Vec::new();
    for k in 0..=256u32 {
        let base = pow2_dec(k);
        for (delta, tag) in [(0i32, "2^k"), (-1, "2^k-1"), (1, "2^k+1"), (2, "2^k+2")] {
            let lit = dec_add(&base, delta);
            if lit.is_empty() {
                continue;
            }
            for shape in 0..3 {
                let e = match shape {
                    0 => bin("Multiply", "*", 4, 4, 3, var("q"), num(&lit)),
                    1 => bin("Multiply", "*", 4, 4, 3, num(&lit), var("q")),
                    _ => bin("Divide", "/", 4, 4, 3, var("q"), num(&lit)),
                };
                let f = file(vec![pragma(PRAGMA), contract("C", vec![func("f", &["public"], vec![expr_stmt(e)])])]);
                let (t, o) = render_l1(&f.toks);
                items.push((format!("pow2:{}:k={}:shape{}", tag, k, shape), t, o));
            }
        }
    }
    let shift: Vec<_> = ds.iter().filter(|d| d.name == "shift_math" || d.name == "solidity_math").cloned().collect();
    let sw2 = refdet::sweep_texts(&items, &shift, Mode::Semantic);
    require_must(&mut run, &sw2, &["shift_math"], "pow2-boundary");
    absorb(&mut run, sw2, "pow2-boundary");
    let samples = json!(c.progs.iter().filter(|p| p.tag.contains("atom.")).step_by(3000).take(4).map(|p| json!({"tag": p.tag, "source": crate::synth::render_sp(&p.toks)})).collect::<Vec<_>>());
    absorb(&mut run, sw, "Σ");
    finish(
        run,
        "states = programs of Σ (every expression alternative and every idiom atom of section 8 in every hole) on the one-token-per-line layout; transitions = (program, detector) comparisons: every canonical (Must) construct must be reported at an admissible anchor and every reported line must be an anchor of a Must or gray (May) construct; non-trivial = distinct (detector, reported line set) outcomes",
        if tier == Tier::Quick { "Σ quick: path length 2" } else { "Σ thorough: path length 3" },
        samples,
    )
}
