//! C05–C09: semantic agreement between the real detectors and the three-valued reference
//! detectors (DESIGN.md sections 5.3, 7 and 8) over Σ and the property-specific spaces.

use crate::corpus::{self, Tier};
use crate::dets;
use crate::ev::Run;
use crate::refdet::{self, Mode, Sweep};
use crate::util;
use crate::synth::*;
use serde_json::json;

/// decimal string of 2^k
pub fn pow2_dec(k: u32) -> String {
    let mut d: Vec<u32> = vec![1];
    for _ in 0..k {
        let mut carry = 0;
        for x in d.iter_mut() {
            let v = *x * 2 + carry;
            *x = v % 10;
            carry = v / 10;
        }
        if carry > 0 {
            d.push(carry);
        }
    }
    d.iter().rev().map(|x| char::from_digit(*x, 10).unwrap()).collect()
}

/// decimal string + small signed delta (empty string if the result would be negative)
pub fn dec_add(s: &str, delta: i32) -> String {
    let mut d: Vec<i32> = s.bytes().rev().map(|b| (b - b'0') as i32).collect();
    d[0] += delta;
    let mut i = 0;
    while i < d.len() {
        if d[i] < 0 {
            if i + 1 >= d.len() {
                return String::new();
            }
            d[i] += 10;
            d[i + 1] -= 1;
        } else if d[i] > 9 {
            d[i] -= 10;
            if i + 1 >= d.len() {
                d.push(0);
            }
            d[i + 1] += 1;
        } else {
            i += 1;
            continue;
        }
    }
    while d.len() > 1 && *d.last().unwrap() == 0 {
        d.pop();
    }
    d.iter().rev().map(|x| char::from_digit(*x as u32, 10).unwrap()).collect()
}

pub const C05_DETS: &[&str] = &[
    "address_balance",
    "address_zero",
    "bool_equals_bool",
    "assign_update_array_value",
    "cache_array_length",
    "increment_decrement",
    "multiple_require",
    "optimal_comparison",
    "shift_math",
    "solidity_keccak256",
    "solidity_math",
];
pub const C06_DETS: &[&str] = &["payable_function", "private_constant", "private_vars_leading_underscore", "private_func_leading_underscore", "constructor_order"];
pub const C07_DETS: &[&str] = &["unsafe_erc20_operation", "divide_before_multiply", "floating_pragma", "unprotected_selfdestruct"];
pub const C08_DETS: &[&str] = &["constant_variables", "immutable_variables", "memory_to_calldata", "sstore"];
pub const C09_DETS: &[&str] = &["safe_math_pre_080", "safe_math_post_080", "string_errors", "short_revert_string"];

pub fn absorb(run: &mut Run, sw: Sweep, family: &str) {
    for e in &sw.machinery {
        run.machinery(format!("[{}] {}", family, e));
    }
    run.add("states", sw.programs);
    run.add("transitions", sw.calls);
    run.add("traces_validated_against_impl", sw.validated);
    run.add("evaluations", sw.calls);
    run.add("distinct_nontrivial", sw.distinct_outcomes);
    run.add("reported_lines_checked", sw.reported_lines);
    run.add("back_to_back_equal_length_pairs", sw.back_to_back_pairs);
    let mut per = run.cov.get("per_detector").cloned().unwrap_or(json!({}));
    for (name, must, may, flagged) in &sw.stats {
        let key = format!("{}@{}", name, family);
        per[key] = json!({"programs_with_must": must, "programs_with_may_only": may, "programs_with_reports": flagged});
    }
    run.set("per_detector", per);
    // vacuity guard: a claimed detector whose canonical form never occurred in a family that is
    // supposed to contain it is a machinery error (checked by the caller through `require_must`)
    run.merge_violations(sw.violations);
}

/// inputs that are extreme in one dimension (src/scale.rs) through the same reference detectors
pub fn scale_sweep(run: &mut Run, ds: &[crate::dets::Detector], items: Vec<(String, String, Vec<usize>)>, family: &str) {
    scale_sweep_mode(run, ds, items, family, Mode::Semantic)
}
pub fn scale_sweep_mode(run: &mut Run, ds: &[crate::dets::Detector], items: Vec<(String, String, Vec<usize>)>, family: &str, mode: Mode) {
    let items: Vec<_> = items.into_iter().filter(|(_, t, _)| refdet::unique_state_var_names(t)).collect();
    let sw = refdet::sweep_texts(&items, ds, mode);
    absorb(run, sw, family);
}

pub fn require_must(run: &mut Run, sw: &Sweep, names: &[&str], family: &str) {
    for (name, must, _, _) in &sw.stats {
        if names.contains(&name.as_str()) && *must == 0 {
            run.machinery(format!("vacuous: no canonical instance of {} occurred in family {}", name, family));
        }
    }
}

pub fn finish(mut run: Run, rule: &str, bound: &str, samples: serde_json::Value) -> i32 {
    run.set("rule", rule);
    run.set("bound_completed", bound);
    run.set("samples", samples);
    run.assume("every generated program is accepted by the parser and carries a tree the generator predicted (validated per program)");
    run.assume("gray forms of DESIGN.md section 8 are accepted either way");
    run.finish()
}

pub fn c05(tier: Tier) -> i32 {
    util::quiet();
    let mut run = Run::new("C05", if tier == Tier::Quick { "quick" } else { "thorough" });
    let ds = dets::by_names(C05_DETS);
    if ds.len() != C05_DETS.len() {
        run.machinery("not all 11 detectors are addressable by their documented name".into());
    }
    let (sw, _sum, sigma_samples) = refdet::sweep_stream(tier, &ds, Mode::SemanticLines, &|p| p.tag.contains("atom."));
    require_must(&mut run, &sw, C05_DETS, "Σ");
    // boundary family: multiplications / divisions by 2^k and its neighbours, k = 0..256
    let mut items = Vec::new();
    for k in 0..=256u32 {
        let base = pow2_dec(k);
        for (delta, tag) in [(0i32, "2^k"), (-1, "2^k-1"), (1, "2^k+1"), (2, "2^k+2")] {
            let lit = dec_add(&base, delta);
            if lit.is_empty() {
                continue;
            }
            for shape in 0..3 {
                let e = match shape {
                    0 => bin("Multiply", "*", 4, 4, 3, var("q"), num(&lit)),
                    1 => bin("Multiply", "*", 4, 4, 3, num(&lit), var("q")),
                    _ => bin("Divide", "/", 4, 4, 3, var("q"), num(&lit)),
                };
                let f = file(vec![pragma(PRAGMA), contract("C", vec![func("f", &["public"], vec![expr_stmt(e)])])]);
                let (t, o) = render_l1(&f.toks);
                items.push((format!("pow2:{}:k={}:shape{}", tag, k, shape), t, o));
            }
        }
    }
    // index literals of every size in the canonical array update
    let upd: Vec<_> = ds.iter().filter(|d| d.name == "assign_update_array_value").cloned().collect();
    let mut idx_items = Vec::new();
    for k in [0u32, 1, 8, 31, 32, 63, 64, 65, 127, 128, 255, 256] {
        for delta in [-1i32, 0, 1] {
            let lit = dec_add(&pow2_dec(k), delta);
            if lit.is_empty() {
                continue;
            }
            for (kind, op, prec, lc, rc) in [("Add", "+", 5u8, 5u8, 4u8), ("Multiply", "*", 4, 4, 3), ("BitwiseXor", "^", 8, 8, 7), ("ShiftLeft", "<<", 6, 6, 5)] {
                let e = bin("Assign", "=", 14, 13, 14, subscript(var("arr"), num(&lit)), bin(kind, op, prec, lc, rc, subscript(var("arr"), num(&lit)), var("q")));
                let f = file(vec![pragma(PRAGMA), contract("C", vec![func("f", &["public"], vec![expr_stmt(e)])])]);
                let (t, o) = render_l1(&f.toks);
                idx_items.push((format!("index:2^{}{:+}:{}", k, delta, kind), t, o));
                // a different index on the right-hand side must not be reported
                let other = dec_add(&lit, 1);
                let e = bin("Assign", "=", 14, 13, 14, subscript(var("arr"), num(&lit)), bin(kind, op, prec, lc, rc, subscript(var("arr"), num(&other)), var("q")));
                let f = file(vec![pragma(PRAGMA), contract("C", vec![func("f", &["public"], vec![expr_stmt(e)])])]);
                let (t, o) = render_l1(&f.toks);
                idx_items.push((format!("index-other:2^{}{:+}:{}", k, delta, kind), t, o));
            }
        }
    }
    let sw_idx = refdet::sweep_texts(&idx_items, &upd, Mode::SemanticLines);
    require_must(&mut run, &sw_idx, &["assign_update_array_value"], "index-literals");
    absorb(&mut run, sw_idx, "index-literals");
    let shift: Vec<_> = ds.iter().filter(|d| d.name == "shift_math" || d.name == "solidity_math").cloned().collect();
    let sw2 = refdet::sweep_texts(&items, &shift, Mode::SemanticLines);
    require_must(&mut run, &sw2, &["shift_math"], "pow2-boundary");
    absorb(&mut run, sw2, "pow2-boundary");
    {
        let mut it = crate::scale::line_items(tier == Tier::Thorough);
        it.extend(crate::scale::shape_items());
        scale_sweep_mode(&mut run, &ds, it, "scale", Mode::SemanticLines);
    }
    let samples = json!(sigma_samples);
    absorb(&mut run, sw, "Σ");
    finish(
        run,
        "states = programs of Σ (every expression alternative and every idiom atom of section 8 in every hole) on the one-token-per-line layout; transitions = (program, detector) comparisons: every canonical (Must) construct must be reported at an admissible anchor and every reported line must be an anchor of a Must or gray (May) construct; non-trivial = distinct (detector, reported line set) outcomes",
        if tier == Tier::Quick { "Σ quick: path length 2" } else { "Σ thorough: path length 3" },
        samples,
    )
}

// ======================================================================================= C06

use crate::synth::P::{C, T};

fn tyf(name: &str) -> Frag {
    match name {
        "mapping" => nodep("Type", 0, vec![T("mapping"), T("("), C(ty("address")), T("=>"), C(ty("uint256")), T(")")]),
        "array" => nodep("ArraySubscript", 0, vec![C(ty("uint256")), T("["), T("]")]),
        "user" => var("UserT"),
        "uint256" => ty("uint256"),
        "address" => ty("address"),
        "bool" => ty("bool"),
        "string" => ty("string"),
        "bytes32" => ty("bytes32"),
        "uint128" => ty("uint128"),
        _ => ty("uint8"),
    }
}

fn var_member(tyn: &str, vis: &'static str, mutk: &'static str, name: String) -> Frag {
    let mut p = vec![C(tyf(tyn))];
    if !vis.is_empty() {
        p.push(T(vis));
    }
    if !mutk.is_empty() {
        p.push(T(mutk));
    }
    p.push(crate::synth::P::S(name));
    if mutk == "constant" {
        p.push(T("="));
        p.push(C(match tyn {
            "address" => call(ty("address"), vec![num("1")]),
            "bool" => nodep("BoolLiteral", 0, vec![T("true")]),
            "string" => strlit("s"),
            _ => num("1"),
        }));
    }
    p.push(T(";"));
    node("VariableDefinition", p)
}

fn func_member(kind: &'static str, vis: &'static str, mutab: &'static str, body: bool, name: String) -> Frag {
    let mut p = vec![T(kind)];
    if kind == "function" || kind == "modifier" {
        p.push(crate::synth::P::S(name));
    }
    p.push(T("("));
    p.push(T(")"));
    if !vis.is_empty() {
        p.push(T(vis));
    }
    if !mutab.is_empty() {
        p.push(T(mutab));
    }
    if body {
        p.push(C(block(vec![])));
    } else {
        p.push(T(";"));
    }
    node("FunctionDefinition", p)
}

/// every member description of the decided alphabet (plus gray ones), with a label
fn member_descriptions() -> Vec<(String, Box<dyn Fn(usize) -> Frag + Sync + Send>)> {
    let mut v: Vec<(String, Box<dyn Fn(usize) -> Frag + Sync + Send>)> = Vec::new();
    for tyn in ["uint256", "address", "bool", "string", "bytes32", "mapping", "array", "user"] {
        for vis in ["", "public", "private", "internal"] {
            for mutk in ["", "constant", "immutable"] {
                for und in [false, true] {
                    if (tyn == "mapping" || tyn == "array" || tyn == "user") && mutk != "" {
                        continue;
                    }
                    let label = format!("var:{}:{}:{}:{}", tyn, vis, mutk, und);
                    v.push((label, Box::new(move |i| var_member(tyn, vis, mutk, format!("{}v{}", if und { "_" } else { "" }, i)))));
                }
            }
        }
    }
    for vis in ["", "public", "external", "internal", "private"] {
        for mutab in ["", "view", "pure", "payable"] {
            for body in [true, false] {
                for und in [false, true] {
                    let label = format!("fn:{}:{}:{}:{}", vis, mutab, body, und);
                    v.push((label, Box::new(move |i| func_member("function", vis, mutab, body, format!("{}f{}", if und { "_" } else { "" }, i)))));
                }
            }
        }
    }
    // attribute order variants: mutability / virtual / override before the visibility keyword
    for vis in ["public", "external", "internal", "private"] {
        for pre in [vec!["view"], vec!["pure"], vec!["payable"], vec!["virtual"], vec!["virtual", "pure"], vec!["override"], vec!["override", "(", "Base", ")", "view"]] {
            for und in [false, true] {
                let pre2 = pre.clone();
                v.push((
                    format!("fn-order:{}:{}:{}", pre.join("+"), vis, und),
                    Box::new(move |i| {
                        let mut p = vec![T("function"), crate::synth::P::S(format!("{}o{}", if und { "_" } else { "" }, i)), T("("), T(")")];
                        for t in &pre2 {
                            p.push(T(t));
                        }
                        p.push(T(vis));
                        p.push(C(block(vec![])));
                        node("FunctionDefinition", p)
                    }),
                ));
            }
        }
    }
    // variable attribute order variants: constant / immutable / override before the visibility keyword
    for vis in ["public", "private", "internal"] {
        for pre in ["constant", "immutable", "override"] {
            for und in [false, true] {
                v.push((
                    format!("var-order:{}:{}:{}", pre, vis, und),
                    Box::new(move |i| {
                        let mut p = vec![C(ty("uint256")), T(pre), T(vis), crate::synth::P::S(format!("{}q{}", if und { "_" } else { "" }, i))];
                        if pre == "constant" {
                            p.push(T("="));
                            p.push(C(num("1")));
                        }
                        p.push(T(";"));
                        node("VariableDefinition", p)
                    }),
                ));
            }
        }
    }
    // every attribute set of a state variable in every order: {constant | immutable | -} x {override | override(I) | -}
    // x visibility, all permutations of the attributes present
    for vis in ["public", "private", "internal", ""] {
        for mutk in ["constant", "immutable", ""] {
            for ov in ["override", "override(I)"] {
                for und in [false, true] {
                    let mut attrs: Vec<Vec<&'static str>> = Vec::new();
                    if !vis.is_empty() {
                        attrs.push(vec![vis]);
                    }
                    if !mutk.is_empty() {
                        attrs.push(vec![mutk]);
                    }
                    attrs.push(if ov == "override" { vec!["override"] } else { vec!["override", "(", "IBase", ")"] });
                    for perm in crate::report::permutations(attrs.len()) {
                        let order: Vec<&'static str> = perm.iter().flat_map(|&k| attrs[k].clone()).collect();
                        let order2 = order.clone();
                        v.push((
                            format!("var-attrs:{}:{}", order.join("+"), und),
                            Box::new(move |i| {
                                let mut p = vec![C(ty("uint256"))];
                                for t in &order2 {
                                    p.push(T(t));
                                }
                                p.push(crate::synth::P::S(format!("{}w{}", if und { "_" } else { "" }, i)));
                                if mutk == "constant" {
                                    p.push(T("="));
                                    p.push(C(num("1")));
                                }
                                p.push(T(";"));
                                node("VariableDefinition", p)
                            }),
                        ));
                    }
                }
            }
        }
    }
    // names: the rules speak of a leading underscore only; letter case, digits, inner / trailing / double underscores,
    // `$` and a bare `_` are all just names
    for name in ["V", "_V", "MAX_FEE", "_MAX_FEE", "WETH", "__v", "v_", "_", "$v", "_1", "mixedCase", "_mixedCase", "Ünï", "_ünï"] {
        for vis in ["", "public", "private", "internal"] {
            for mutk in ["", "constant", "immutable"] {
                for tyn in ["uint256", "address"] {
                    v.push((format!("var-name:{}:{}:{}:{}", name, tyn, vis, mutk), Box::new(move |_| var_member(tyn, vis, mutk, name.to_string()))));
                }
            }
        }
        for vis in ["", "public", "external", "internal", "private"] {
            v.push((format!("fn-name:{}:{}", name, vis), Box::new(move |_| func_member("function", vis, "", true, name.to_string()))));
        }
    }
    for vis in ["", "public", "internal"] {
        for mutab in ["", "payable"] {
            v.push((format!("ctor:{}:{}", vis, mutab), Box::new(move |_| func_member("constructor", vis, mutab, true, String::new()))));
        }
    }
    for kind in ["fallback", "receive"] {
        for vis in ["", "external"] {
            for mutab in ["", "payable"] {
                for body in [true, false] {
                    v.push((format!("{}:{}:{}:{}", kind, vis, mutab, body), Box::new(move |_| func_member(kind, vis, mutab, body, String::new()))));
                }
            }
        }
    }
    v.push(("modifier".into(), Box::new(|i| func_member("modifier", "", "", true, format!("md{}", i)))));
    v.push(("modifier:virtual".into(), Box::new(|i| func_member("modifier", "virtual", "", true, format!("md{}", i)))));
    v
}

fn neighbour(k: usize, i: usize) -> Frag {
    match k {
        0 => var_member("uint256", "", "", format!("n{}", i)),
        1 => var_member("uint128", "private", "", format!("_n{}", i)),
        2 => func_member("function", "public", "payable", true, format!("g{}", i)),
        3 => func_member("function", "internal", "", true, format!("_g{}", i)),
        4 => func_member("modifier", "", "", true, format!("m{}", i)),
        5 => func_member("constructor", "", "payable", true, String::new()),
        6 => node("EventDefinition", vec![T("event"), crate::synth::P::S(format!("Ev{}", i)), T("("), T(")"), T(";")]),
        8 => var_member("uint256", "private", "constant", format!("_K{}", i)),
        9 => var_member("address", "public", "immutable", format!("im{}", i)),
        10 => var_member("mapping", "", "", format!("mp{}", i)),
        _ => node("StructDefinition", vec![T("struct"), crate::synth::P::S(format!("St{}", i)), T("{"), C(ty("uint256")), T("a"), T(";"), T("}")]),
    }
}

fn other_item(k: usize) -> Frag {
    match k {
        0 => contract_kw(&["contract"], "Other0", vec![], vec![func_member("function", "external", "payable", true, "h0".into()), func_member("constructor", "", "payable", true, String::new())]),
        1 => contract_kw(&["library"], "Other1", vec![], vec![func_member("function", "internal", "", true, "_h1".into())]),
        2 => contract_kw(&["interface"], "Other2", vec![], vec![func_member("function", "external", "payable", false, "h2".into())]),
        3 => func("freeh3", &[], vec![]),
        _ => contract_kw(&["contract"], "Other4", vec![], vec![func_member("constructor", "", "payable", true, String::new()), func_member("function", "external", "payable", true, "h4".into())]),
    }
}

fn as_item(kw: &[&'static str], name: &'static str, members: Vec<Frag>) -> Frag {
    contract_kw(kw, name, vec![], members)
}

fn item_text(label: String, items: Vec<Frag>) -> (String, String, Vec<usize>) {
    let mut parts = vec![pragma(PRAGMA)];
    parts.extend(items);
    let f = file(parts);
    let (t, o) = render_l1(&f.toks);
    (label, t, o)
}

const CO_KINDS: &[&str] = &["function", "fallback", "receive", "modifier", "constructor", "variable", "event"];

fn co_member(k: usize, i: usize) -> Frag {
    match CO_KINDS[k] {
        "function" => func_member("function", "external", "payable", true, format!("cf{}", i)),
        "fallback" => func_member("fallback", "external", "payable", true, String::new()),
        "receive" => func_member("receive", "external", "payable", true, String::new()),
        "modifier" => func_member("modifier", "", "", true, format!("cm{}", i)),
        "constructor" => func_member("constructor", "", "payable", true, String::new()),
        "variable" => var_member("uint256", "", "", format!("cv{}", i)),
        _ => node("EventDefinition", vec![T("event"), crate::synth::P::S(format!("CE{}", i)), T("("), T(")"), T(";")]),
    }
}

fn sequences(max_len: usize) -> Vec<Vec<usize>> {
    let mut all = vec![vec![]];
    let mut cur: Vec<Vec<usize>> = vec![vec![]];
    for _ in 0..max_len {
        let mut next = Vec::new();
        for s in &cur {
            for k in 0..CO_KINDS.len() {
                let mut t = s.clone();
                t.push(k);
                next.push(t);
            }
        }
        all.extend(next.iter().cloned());
        cur = next;
    }
    all
}

pub fn c06(tier: Tier) -> i32 {
    util::quiet();
    let mut run = Run::new("C06", if tier == Tier::Quick { "quick" } else { "thorough" });
    let ds = dets::by_names(C06_DETS);
    if ds.len() != C06_DETS.len() {
        run.machinery("not all 5 detectors are addressable by their documented name".into());
    }
    let descs = member_descriptions();
    let kinds: [&[&'static str]; 4] = [&["contract"], &["abstract", "contract"], &["library"], &["interface"]];
    // ---- family 1: every member description alone / with <= 2 neighbours, in every contract kind
    let mut items = refdet::Batch::new(&ds, Mode::Semantic, false);
    for (label, mk) in &descs {
        for kw in kinds.iter() {
            items.push(item_text(format!("alone:{}:{}", kw.join(" "), label), vec![as_item(kw, "C", vec![mk(0)])]));
        }
        for nk in 0..11 {
            items.push(item_text(format!("before:{}:n{}", label, nk), vec![as_item(&["contract"], "C", vec![neighbour(nk, 1), mk(0)])]));
            items.push(item_text(format!("after:{}:n{}", label, nk), vec![as_item(&["contract"], "C", vec![mk(0), neighbour(nk, 1)])]));
        }
        let two = if tier == Tier::Quick { 4 } else { 8 };
        for n1 in 0..two {
            for n2 in 0..two {
                let (a, b) = (n1 * 8 / two, (n2 * 8 / two + 1) % 8);
                items.push(item_text(format!("nnm:{}:{}:{}", label, a, b), vec![as_item(&["contract"], "C", vec![neighbour(a, 1), neighbour(b, 2), mk(0)])]));
                items.push(item_text(format!("nmn:{}:{}:{}", label, a, b), vec![as_item(&["contract"], "C", vec![neighbour(a, 1), mk(0), neighbour(b, 2)])]));
                items.push(item_text(format!("mnn:{}:{}:{}", label, a, b), vec![as_item(&["contract"], "C", vec![mk(0), neighbour(a, 1), neighbour(b, 2)])]));
            }
        }
        // the contract as first / second / third item of a multi-item file
        for o1 in 0..5 {
            for o2 in 0..5 {
                if tier == Tier::Quick && (o1 + o2) % 2 == 1 {
                    continue;
                }
                if o1 == o2 {
                    continue;
                }
                let me = || as_item(&["contract"], "C", vec![neighbour(2, 1), mk(0)]);
                items.push(item_text(format!("item1:{}:{}:{}", label, o1, o2), vec![me(), other_item(o1), other_item(o2)]));
                items.push(item_text(format!("item2:{}:{}:{}", label, o1, o2), vec![other_item(o1), me(), other_item(o2)]));
                items.push(item_text(format!("item3:{}:{}:{}", label, o1, o2), vec![other_item(o1), other_item(o2), me()]));
            }
        }
    }
    // members of other items with the same names: an interface / abstract base / library that declares a
    // function or variable of the same name must not influence the verdict
    for (label, mk) in descs.iter().filter(|(l, _)| l.starts_with("fn:") || l.starts_with("var:uint256")) {
        let me = mk(0);
        // the member's name is token 1 for functions, the token before `;` or `=` for variables
        let name = if label.starts_with("fn:") { me.toks[1].clone() } else { me.toks.iter().rev().skip_while(|t| *t == ";" || t.chars().all(|c| c.is_ascii_digit()) || *t == "=").next().cloned().unwrap_or_default() };
        if label.starts_with("fn:") {
            let decl = node("FunctionDefinition", vec![T("function"), crate::synth::P::S(name.clone()), T("("), T(")"), T("external"), T(";")]);
            let iface = contract_kw(&["interface"], "IBase", vec![], vec![decl]);
            let c = contract_kw(&["contract"], "C", vec![seq(vec![T("IBase")])], vec![mk(0)]);
            items.push(item_text(format!("iface-same-name:{}", label), vec![iface.clone(), c.clone()]));
            items.push(item_text(format!("iface-same-name-after:{}", label), vec![c, iface]));
            let lib = contract_kw(&["library"], "LBase", vec![], vec![node("FunctionDefinition", vec![T("function"), crate::synth::P::S(name.clone()), T("("), T(")"), T("internal"), C(block(vec![]))])]);
            items.push(item_text(format!("lib-same-name:{}", label), vec![lib, as_item(&["contract"], "C", vec![mk(0)])]));
        }
    }
    let (sw, smp) = items.finish();
    require_must(&mut run, &sw, &["payable_function", "private_constant", "private_vars_leading_underscore", "private_func_leading_underscore", "constructor_order"], "members");
    let sample1 = json!({"label": smp.as_ref().map(|x| x.0.clone()), "text": smp.as_ref().map(|x| x.1.clone())});
    absorb(&mut run, sw, "members");

    // ---- family 2: constructor_order, all member-kind sequences in all files of <= 2 (3) contracts
    let co: Vec<_> = ds.iter().filter(|d| d.name == "constructor_order").cloned().collect();
    let mut items2 = refdet::Batch::new(&co, Mode::Semantic, false);
    let mk_contract = |name: &'static str, kw: &[&'static str], seq: &[usize], base: usize| -> Frag { as_item(kw, name, seq.iter().enumerate().map(|(i, &k)| co_member(k, base + i)).collect()) };
    let long = sequences(if tier == Tier::Quick { 5 } else { 6 });
    for s in &long {
        items2.push(item_text(format!("co1:{:?}", s), vec![mk_contract("A", &["contract"], s, 0)]));
    }
    let short = sequences(if tier == Tier::Quick { 2 } else { 3 });
    let mid = sequences(if tier == Tier::Quick { 3 } else { 4 });
    for (i, s1) in mid.iter().enumerate() {
        for s2 in &short {
            let kw2: &[&'static str] = match i % 3 {
                0 => &["contract"],
                1 => &["library"],
                _ => &["abstract", "contract"],
            };
            items2.push(item_text(format!("co2:{:?}|{:?}", s1, s2), vec![mk_contract("A", &["contract"], s1, 0), mk_contract("B", kw2, s2, 10)]));
            items2.push(item_text(format!("co2r:{:?}|{:?}", s2, s1), vec![mk_contract("A", kw2, s2, 10), mk_contract("B", &["contract"], s1, 0)]));
            if s1.len() <= 2 {
                items2.push(item_text(format!("co2f:{:?}|free|{:?}", s1, s2), vec![mk_contract("A", &["contract"], s1, 0), func("freefn", &[], vec![]), mk_contract("B", &["contract"], s2, 10)]));
            }
        }
    }
    let tiny = sequences(if tier == Tier::Quick { 1 } else { 2 });
    for s1 in &short {
        for s2 in &tiny {
            for s3 in &short {
                items2.push(item_text(format!("co3:{:?}|{:?}|{:?}", s1, s2, s3), vec![mk_contract("A", &["contract"], s1, 0), mk_contract("B", &["interface"], s2, 10), mk_contract("D", &["contract"], s3, 20)]));
            }
        }
    }
    // count family: k functions (and k modifiers) before a constructor
    for k in [0usize, 1, 2, 127, 128, 254, 255, 256, 257, 300, 511, 512, 513] {
        let mut ms: Vec<Frag> = (0..k).map(|i| co_member(0, i)).collect();
        ms.push(co_member(4, 0));
        items2.push(item_text(format!("count:functions:{}", k), vec![as_item(&["contract"], "A", ms)]));
        let mut ms: Vec<Frag> = (0..k).map(|i| co_member(3, i)).collect();
        ms.push(co_member(4, 0));
        items2.push(item_text(format!("count:modifiers:{}", k), vec![as_item(&["contract"], "A", ms)]));
    }
    let (sw2, smp2) = items2.finish();
    require_must(&mut run, &sw2, &["constructor_order"], "constructor-order-sequences");
    let sample2 = json!({"label": smp2.as_ref().map(|x| x.0.clone()), "text": smp2.as_ref().map(|x| x.1.clone())});
    absorb(&mut run, sw2, "constructor-order-sequences");

    // ---- family 3: Σ_D (declaration alternatives alone and in ordered pairs) for all five detectors
    let c = corpus::build(Tier::Quick);
    let d_items: Vec<(String, String, Vec<usize>)> = c
        .progs
        .iter()
        .filter(|p| p.tag.starts_with("D") || p.tag.starts_with("C0") || p.tag.starts_with("A1:"))
        .map(|p| {
            let (t, o) = render_l1(&p.toks);
            (p.tag.clone(), t, o)
        })
        .filter(|(_, t, _)| refdet::unique_state_var_names(t))
        .collect();
    let sw3 = refdet::sweep_texts(&d_items, &ds, Mode::Semantic);
    absorb(&mut run, sw3, "Σ_D+contexts");
    {
        let mut it = crate::scale::width_items(tier == Tier::Thorough);
        it.extend(crate::scale::shape_items());
        scale_sweep(&mut run, &ds, it, "scale");
    }
    finish(
        run,
        "states = files of the declaration space D: every member description (type x visibility x constant/immutable x name; function kind x visibility x mutability x body x name) alone in every contract kind, with <= 2 neighbours of 8 member kinds at every relative position, and as 1st/2nd/3rd item of multi-item files; constructor_order: ALL sequences over 7 member kinds of length <= 5 in one contract, <= 3 x <= 2 in two contracts (both orders, with a free function between), three contracts, counts up to 513; plus Σ_D; oracle = reference detectors 8.12–8.16 with iff semantics on the decided alphabet; non-trivial = distinct (detector, reported set) outcomes",
        if tier == Tier::Quick { "members <= 3 per contract; sequences <= 5 / (<=3 x <=2) / (<=2 x <=1 x <=2)" } else { "members <= 3; sequences <= 6 / (<=4 x <=3) / (<=3 x <=2 x <=3)" },
        json!([sample1, sample2]),
    )
}

// ======================================================================================= C07

fn msg_sender() -> Frag {
    member(var("msg"), "sender")
}

fn sd_call(callee: &'static str, payout: usize) -> Frag {
    let arg = match payout {
        0 => var("x"),
        1 => msg_sender(),
        2 => call(ty("payable"), vec![msg_sender()]),
        3 => call(ty("address"), vec![msg_sender()]),
        4 => call(ty("payable"), vec![call(ty("address"), vec![msg_sender()])]),
        _ => call(var("wrap"), vec![msg_sender()]),
    };
    call(var(callee), vec![arg])
}

fn guard_stmt(g: usize) -> Option<Frag> {
    let eq = |l: Frag, r: Frag, ne: bool| if ne { bin("NotEqual", "!=", 11, 11, 10, l, r) } else { bin("Equal", "==", 11, 11, 10, l, r) };
    Some(match g {
        0 => return None,
        1 => expr_stmt(call(var("require"), vec![eq(msg_sender(), var("o"), false)])),
        2 => expr_stmt(call(var("require"), vec![eq(var("o"), msg_sender(), false), strlit("no")])),
        3 => expr_stmt(call(var("require"), vec![eq(msg_sender(), var("o"), true)])),
        4 => expr_stmt(call(var("check"), vec![msg_sender()])),
        5 => node("If", vec![T("if"), T("("), C(eq(msg_sender(), var("o"), false)), T(")"), C(block(vec![expr_stmt(var("y"))]))]),
        6 => node("Emit", vec![T("emit"), C(call(var("Ev"), vec![msg_sender()])), T(";")]),
        7 => node("VariableDefinition", vec![C(ty("address")), T("w"), T("="), C(call(ty("payable"), vec![msg_sender()])), T(";")]),
        8 => expr_stmt(call(var("require"), vec![eq(call(ty("payable"), vec![msg_sender()]), var("o"), false)])),
        9 => expr_stmt(call(member(var("acl"), "check"), vec![var("k"), msg_sender()])),
        10 => expr_stmt(call(var("assert"), vec![eq(var("o"), msg_sender(), true)])),
        // checks that do NOT mention msg.sender (aliases, look-alikes, other members of msg / tx): the call stays unprotected
        11 => expr_stmt(call(var("require"), vec![eq(call(var("_msgSender"), vec![]), var("o"), false)])),
        12 => expr_stmt(call(var("check"), vec![call(var("_msgSender"), vec![])])),
        13 => expr_stmt(call(var("require"), vec![eq(member(var("tx"), "origin"), var("o"), false)])),
        14 => expr_stmt(call(var("require"), vec![eq(var("sender"), var("o"), false), strlit("msg.sender")])),
        15 => expr_stmt(call(var("require"), vec![eq(member(var("msg"), "value"), var("o"), false)])),
        16 => expr_stmt(call(var("require"), vec![eq(var("msgSender"), member(var("message"), "sender"), true)])),
        _ => expr_stmt(call(var("require"), vec![eq(member(member(var("x"), "msg"), "senderOf"), var("o"), false)])),
    })
}

fn sd_function(kind: &'static str, vis: &'static str, modifier: &'static str, body: Vec<Frag>) -> Frag {
    let mut p = vec![T(kind)];
    if kind == "function" {
        p.push(T("kill"));
    }
    p.push(T("("));
    p.push(T(")"));
    if !vis.is_empty() {
        p.push(T(vis));
    }
    for m in modifier.split(' ').filter(|m| !m.is_empty()) {
        p.push(T(m));
    }
    p.push(C(block(body)));
    node("FunctionDefinition", p)
}

fn muldiv_trees(max_ops: usize) -> Vec<Frag> {
    // all binary trees over {*, /, +} with <= max_ops operators, leaves named a..e in order
    fn gen(ops: usize, next_leaf: &mut usize, out: &mut Vec<(Frag, usize)>) {
        let _ = (ops, next_leaf, out);
    }
    let _ = gen;
    fn build(ops: usize) -> Vec<Frag> {
        if ops == 0 {
            return vec![var("L")];
        }
        let mut v = Vec::new();
        for left in 0..ops {
            let right = ops - 1 - left;
            let ls = build(left);
            let rs = build(right);
            for l in &ls {
                for r in &rs {
                    for (k, o, p, lc, rc) in [("Multiply", "*", 4u8, 4u8, 3u8), ("Divide", "/", 4, 4, 3), ("Add", "+", 5, 5, 4)] {
                        v.push(bin(k, o, p, lc, rc, l.clone(), r.clone()));
                        // explicit (redundant) parentheses around non-leaf children
                        if l.toks.len() > 1 || r.toks.len() > 1 {
                            let lp = if l.toks.len() > 1 { paren(l.clone()) } else { l.clone() };
                            let rp = if r.toks.len() > 1 { paren(r.clone()) } else { r.clone() };
                            v.push(bin(k, o, p, lc, rc, lp, rp));
                            // ... and two / three levels of them
                            let lp2 = if l.toks.len() > 1 { paren(paren(l.clone())) } else { l.clone() };
                            let rp3 = if r.toks.len() > 1 { paren(paren(paren(r.clone()))) } else { r.clone() };
                            v.push(bin(k, o, p, lc, rc, lp2, rp3));
                        }
                    }
                }
            }
        }
        v
    }
    let mut all = Vec::new();
    for n in 1..=max_ops {
        all.extend(build(n));
    }
    all
}

pub fn c07(tier: Tier) -> i32 {
    util::quiet();
    let mut run = Run::new("C07", if tier == Tier::Quick { "quick" } else { "thorough" });
    let ds = dets::by_names(C07_DETS);
    if ds.len() != C07_DETS.len() {
        run.machinery("not all 4 detectors are addressable by their documented name".into());
    }
    // ---- Σ
    let (sw, _sum, _samples) = refdet::sweep_stream(tier, &ds, Mode::Semantic, &|_| true);
    require_must(&mut run, &sw, &["unsafe_erc20_operation", "divide_before_multiply", "floating_pragma"], "Σ");
    absorb(&mut run, sw, "Σ");

    // ---- selfdestruct matrix
    let sd: Vec<_> = ds.iter().filter(|d| d.name == "unprotected_selfdestruct").cloned().collect();
    let mut items: Vec<(String, String, Vec<usize>)> = Vec::new();
    let in_c = |f: Frag| file(vec![pragma(PRAGMA), contract("C", vec![f])]);
    for kind in ["function", "fallback", "receive", "constructor"] {
        for vis in ["", "public", "external", "internal", "private"] {
            for modifier in ["", "onlyOwner", "only", "m", "OnlyOwner", "lonely", "m onlyOwner", "onlyOwner m", "nonReentrant m only", "m n"] {
                for g in 0..=17usize {
                    for payout in 0..=5usize {
                        for callee in ["selfdestruct", "suicide"] {
                            if tier == Tier::Quick && callee == "suicide" && (g + payout) % 3 != 0 {
                                continue;
                            }
                            let mut body = Vec::new();
                            if let Some(gs) = guard_stmt(g) {
                                body.push(gs);
                            }
                            body.push(expr_stmt(sd_call(callee, payout)));
                            let f = in_c(sd_function(kind, vis, modifier, body));
                            let (t, o) = render_l1(&f.toks);
                            items.push((format!("sd:{}:{}:{}:g{}:p{}:{}", kind, vis, modifier, g, payout, callee), t, o));
                        }
                    }
                }
            }
        }
    }
    // guard after the call, and in another function of the same contract
    for g in 1..=17usize {
        for payout in [0usize, 2] {
            let f = in_c(sd_function("function", "public", "", vec![expr_stmt(sd_call("selfdestruct", payout)), guard_stmt(g).unwrap()]));
            let (t, o) = render_l1(&f.toks);
            items.push((format!("sd:guard-after:g{}:p{}", g, payout), t, o));
            let other = node("FunctionDefinition", vec![T("function"), T("other"), T("("), T(")"), T("public"), C(block(vec![guard_stmt(g).unwrap()]))]);
            let f2 = file(vec![pragma(PRAGMA), contract("C", vec![other, sd_function("function", "external", "", vec![expr_stmt(sd_call("selfdestruct", payout))])])]);
            let (t, o) = render_l1(&f2.toks);
            items.push((format!("sd:guard-in-other-function:g{}:p{}", g, payout), t, o));
        }
    }
    // placement of the call in every statement hole
    let salts = stmt_alts();
    let simples = simple_alts();
    for payout in [0usize, 2] {
        for g in [0usize, 2] {
            let leaf = vec![("sd".to_string(), expr_stmt(sd_call("selfdestruct", payout)))];
            for depth in 1..=(if tier == Tier::Quick { 1 } else { 2 }) {
                for (n, st) in stmt_chains(&salts, &simples, depth, &leaf) {
                    let mut body = Vec::new();
                    if let Some(gs) = guard_stmt(g) {
                        body.push(gs);
                    }
                    body.push(st);
                    let f = in_c(sd_function("function", "public", "", body));
                    let (t, o) = render_l1(&f.toks);
                    items.push((format!("sd:placement:{}:g{}:p{}", n, g, payout), t, o));
                }
            }
            // in every expression hole of every statement
            let e = vec![("sd".to_string(), sd_call("selfdestruct", payout))];
            for (n, st) in stmt_expr_holes(&salts, &simples, &e) {
                let mut body = Vec::new();
                if let Some(gs) = guard_stmt(g) {
                    body.push(gs);
                }
                body.push(st);
                let f = in_c(sd_function("function", "external", "", body));
                let (t, o) = render_l1(&f.toks);
                items.push((format!("sd:expr-hole:{}:g{}:p{}", n, g, payout), t, o));
            }
        }
    }
    // the sender check sits in an expression operand of the very statement whose body holds the call
    for (gi, guard) in [call(var("isOwner"), vec![msg_sender()]), bin("Equal", "==", 11, 11, 10, var("o"), msg_sender()), var("unrelated")].into_iter().enumerate() {
        for a in &salts {
            let ehs: Vec<usize> = a.holes.iter().enumerate().filter(|(_, h)| matches!(h, H::E(_))).map(|(i, _)| i).collect();
            let shs: Vec<usize> = a.holes.iter().enumerate().filter(|(_, h)| matches!(h, H::St | H::StClosed | H::Blk)).map(|(i, _)| i).collect();
            for &eh in &ehs {
                for &sh in &shs {
                    let hs: Vec<Frag> = a
                        .holes
                        .iter()
                        .enumerate()
                        .map(|(i, h)| {
                            if i == eh {
                                match h {
                                    H::E(c) => fit(*c, &guard),
                                    _ => unreachable!(),
                                }
                            } else if i == sh {
                                expr_stmt(sd_call("selfdestruct", 2))
                            } else {
                                match h {
                                    H::E(c) => fit(*c, &var("zz")),
                                    H::Simple => simple_expr(var("zz")),
                                    _ => expr_stmt(var("zz")),
                                }
                            }
                        })
                        .collect();
                    let st = (a.build)(&hs);
                    for vis in ["external", "public"] {
                        let f = in_c(sd_function("function", vis, "", vec![st.clone()]));
                        let (t, o) = render_l1(&f.toks);
                        items.push((format!("sd:guard-in-operand:{}:{}[{}/{}]:{}", gi, a.name, eh, sh, vis), t, o));
                    }
                }
            }
        }
    }
    // functions of the SAME name with different protection: overloads in one contract, the same signature in two contracts of
    // the file, a modifier of the same name as a function; each in both orders (a verdict remembered per name leaks)
    {
        let forms: [(&str, &str); 6] = [
            ("open", "function kill ( ) external { selfdestruct ( payable ( msg . sender ) ) ; }"),
            ("only", "function kill ( ) external onlyOwner { selfdestruct ( payable ( msg . sender ) ) ; }"),
            ("checked", "function kill ( ) external { require ( msg . sender == owner ) ; selfdestruct ( payable ( owner ) ) ; }"),
            ("open-overload", "function kill ( uint256 a ) public { selfdestruct ( payable ( address ( 0 ) ) ) ; }"),
            ("only-overload", "function kill ( uint256 a ) public onlyOwner { suicide ( payable ( address ( 0 ) ) ) ; }"),
            ("internal", "function kill ( bool b ) internal { selfdestruct ( payable ( address ( 0 ) ) ) ; }"),
        ];
        for (an, a) in &forms {
            for (bn, b) in &forms {
                if an == bn {
                    continue;
                }
                let same_sig = a.split('{').next() == b.split('{').next() || (a.starts_with("function kill ( )") && b.starts_with("function kill ( )"));
                if !same_sig {
                    items.push(l1_item(format!("sd:same-name:one-contract:{}:{}", an, bn), &toks_of(&format!("pragma solidity 0.8.19 ; contract C {{ address owner ; {} {} }}", a, b))));
                }
                items.push(l1_item(format!("sd:same-name:two-contracts:{}:{}", an, bn), &toks_of(&format!("pragma solidity 0.8.19 ; contract C {{ address owner ; {} }} contract D {{ address owner ; {} }}", a, b))));
            }
        }
    }
    // an unprotected call in a contract, with file-level definitions before and after it (free function, struct, constant, error)
    for (nm, before, after) in [
        ("free-function-after", "", "function free ( uint256 a ) pure returns ( uint256 ) { return a ; }"),
        ("free-function-before", "function free ( uint256 a ) pure returns ( uint256 ) { return a ; }", ""),
        ("struct-constant-error", "struct S { uint256 a ; } uint256 constant K = 1 ;", "error E ( ) ; enum Kind { A }"),
        ("free-function-with-call", "function boom ( address payable a ) { selfdestruct ( a ) ; }", ""),
    ] {
        items.push(l1_item(format!("sd:file-level:{}", nm), &toks_of(&format!("pragma solidity 0.8.19 ; {} contract C {{ function kill ( ) external {{ selfdestruct ( payable ( msg . sender ) ) ; }} }} {}", before, after))));
    }
    let sw2 = refdet::sweep_texts(&items, &sd, Mode::Semantic);
    require_must(&mut run, &sw2, &["unprotected_selfdestruct"], "selfdestruct-matrix");
    let sample_sd = json!({"label": items[items.len() / 2].0, "text": items[items.len() / 2].1});
    absorb(&mut run, sw2, "selfdestruct-matrix");

    // ---- division / multiplication chains
    let dm: Vec<_> = ds.iter().filter(|d| d.name == "divide_before_multiply").cloned().collect();
    let mut items3: Vec<(String, String, Vec<usize>)> = Vec::new();
    for (i, e) in muldiv_trees(if tier == Tier::Quick { 3 } else { 4 }).into_iter().enumerate() {
        let f = in_c(func("f", &["public"], vec![expr_stmt(bin("Assign", "=", 14, 13, 14, var("r"), e.clone()))]));
        let (t, o) = render_l1(&f.toks);
        items3.push((format!("muldiv:{}", i), t, o));
        let f = in_c(func("f", &["public"], vec![expr_stmt(bin("AssignDivide", "/=", 14, 13, 14, var("r"), e.clone()))]));
        let (t, o) = render_l1(&f.toks);
        items3.push((format!("assigndiv:{}", i), t, o));
        if i % 5 == 0 {
            let f = in_c(func("f", &["public"], vec![expr_stmt(bin("AssignMultiply", "*=", 14, 13, 14, var("r"), e))]));
            let (t, o) = render_l1(&f.toks);
            items3.push((format!("assignmul:{}", i), t, o));
        }
    }
    let sw3 = refdet::sweep_texts(&items3, &dm, Mode::Semantic);
    require_must(&mut run, &sw3, &["divide_before_multiply"], "muldiv-chains");
    absorb(&mut run, sw3, "muldiv-chains");

    // ---- pragma values
    let fp: Vec<_> = ds.iter().filter(|d| d.name == "floating_pragma").cloned().collect();
    let mut items4: Vec<(String, String, Vec<usize>)> = Vec::new();
    let values = ["0.8.19", "=0.8.19", "= 0.8.19", "^0.8.19", "^ 0.8.19", ">=0.8.0", "~0.8.19", ">=0.8.0 <0.9.0", "^0.8.0 || ^0.7.0", "0.8.0 - 0.8.19", "*", ">0.8.0", "0.4.26", "^0.4.0", "1.2.3", "^1.2.3"];
    let other: [Option<Frag>; 3] = [
        None,
        Some(node("PragmaDirective", vec![T("pragma"), T("experimental"), T("ABIEncoderV2"), T(";")])),
        Some(node("PragmaDirective", vec![T("pragma"), T("abicoder"), T("v2"), T(";")])),
    ];
    for v1 in values {
        for o in &other {
            for pos in 0..3 {
                let p1 = pragma(v1);
                let body = contract("C", vec![]);
                let parts = match (o, pos) {
                    (None, 0) => vec![p1, body],
                    (None, 1) => vec![body, p1],
                    (None, _) => vec![p1, body, pragma("0.8.19")],
                    (Some(x), 0) => vec![x.clone(), p1, body],
                    (Some(x), 1) => vec![p1, x.clone(), body],
                    (Some(x), _) => vec![p1, body, x.clone()],
                };
                let f = file(parts);
                let (t, ofs) = render_l1(&f.toks);
                items4.push((format!("pragma:{}:{}:{}", v1, o.is_some(), pos), t, ofs));
            }
        }
    }
    // files in which nothing follows the directive, or only file-level definitions do
    for (nm, rest) in [("directive-only", ""), ("free-function", "function free ( address t , uint256 a ) { IERC20 ( t ) . transferFrom ( t , t , a / 2 * 3 ) ; }"), ("struct-and-constant", "struct S { uint256 a ; } uint256 constant K = 8 / 2 * 3 ;"), ("error-only", "error E ( ) ;")] {
        for v in ["^ 0.8.0", "0.8.19", "^ 0.7.0"] {
            items4.push(l1_item(format!("pragma-alone:{}:{}", nm, v), &toks_of(&format!("pragma solidity {} ; {}", v, rest))));
        }
    }
    let sw4 = refdet::sweep_texts(&items4, &ds, Mode::Semantic);
    require_must(&mut run, &sw4, &["floating_pragma"], "pragma-values");
    absorb(&mut run, sw4, "pragma-values");
    {
        let mut it = crate::scale::line_items(tier == Tier::Thorough);
        it.extend(crate::scale::shape_items());
        scale_sweep(&mut run, &ds, it, "scale");
    }
    // ---- the same detectors through analyze_dir, with spaced member accesses and directives
    {
        let mut texts: Vec<(String, String)> = Vec::new();
        for (n, dot) in [("tight", "."), ("blank", " . "), ("newline", "\n      .\n      "), ("dot-newline", ".\n      "), ("comment", "./* c */"), ("newline-dot", "\n      .")] {
            for member in ["transfer", "transferFrom", "approve", "safeTransfer"] {
                texts.push((
                    format!("member:{}:{}", n, member),
                    format!("pragma solidity ^0.8.0;\ncontract C {{\n  function f(address t, uint256 a) public {{\n    IERC20(t){}{}(t, a);\n    uint256 r = a / 2 * 3;\n  }}\n  function k() external {{ selfdestruct(payable(address(0))); }}\n  function s() external {{ suicide(payable(address(0))); }}\n}}\n", dot, member),
                ));
            }
        }
        let (dvs, dn) = crate::fsx::dir_equals_file(&texts, (&[], C07_DETS, &[]));
        run.merge_violations(dvs);
        run.add("states", dn);
        run.add("transitions", dn * 2);
        run.set("directory_level_spellings", dn);
    }
    finish(
        run,
        "states = programs: Σ (erc20 / division / pragma atoms in every hole) + selfdestruct matrix (function kind x visibility x modifier name x 18 guard forms x 6 payout forms x callee; guard after the call / in another function; the call in every statement hole and every expression hole of every statement) + all {*,/,+} trees with <= 3 (4) operators with and without redundant parentheses as right-hand side of =, /=, *= + pragma values x unrelated pragmas x positions; oracle = reference detectors 8.17–8.20 (three-valued); non-trivial = distinct (detector, reported set) outcomes",
        if tier == Tier::Quick { "Σ quick; operator trees <= 3; statement placement depth 1" } else { "Σ thorough; operator trees <= 4; statement placement depth 2" },
        json!([sample_sd]),
    )
}

// ======================================================================================= C08

fn toks_of(s: &str) -> Vec<String> {
    s.split_whitespace().map(|x| x.to_string()).collect()
}

/// insert `decl` right after the opening brace of the first `contract C {`; None if there is none
fn inject_into_c(toks: &[String], decl: &[String]) -> Option<Vec<String>> {
    for i in 0..toks.len().saturating_sub(2) {
        if toks[i] == "contract" && toks[i + 1] == "C" && toks[i + 2] == "{" {
            let mut v = toks[..i + 3].to_vec();
            v.extend_from_slice(decl);
            v.extend_from_slice(&toks[i + 3..]);
            return Some(v);
        }
    }
    None
}

fn l1_item(label: String, toks: &[String]) -> (String, String, Vec<usize>) {
    let (t, o) = render_l1(toks);
    (label, t, o)
}

/// write forms on the bare identifier / gray forms rooted at it
fn write_forms(name: &'static str, all: bool) -> Vec<(String, Frag)> {
    let mut v: Vec<(String, Frag)> = Vec::new();
    let assigns: Vec<&(&str, &str, u8, u8, u8)> = BINOPS.iter().filter(|b| b.0.starts_with("Assign")).collect();
    for (i, b) in assigns.iter().enumerate() {
        // every assignment operator in both tiers (each has its own match arm in the detectors)
        if all || i < usize::MAX {
            v.push((format!("w.{}", b.0), bin(b.0, b.1, b.2, b.3, b.4, var(name), num("5"))));
        }
    }
    v.push(("w.PreIncrement".into(), nodep("PreIncrement", 2, vec![T("++"), C(var(name))])));
    v.push(("w.PostDecrement".into(), nodep("PostDecrement", 0, vec![C(var(name)), T("--")])));
    if all {
        v.push(("w.PreDecrement".into(), nodep("PreDecrement", 2, vec![T("--"), C(var(name))])));
        v.push(("w.PostIncrement".into(), nodep("PostIncrement", 0, vec![C(var(name)), T("++")])));
    }
    // gray forms
    v.push(("g.index".into(), bin("Assign", "=", 14, 13, 14, subscript(var(name), num("0")), num("5"))));
    v.push(("g.delete".into(), nodep("Delete", 2, vec![T("delete"), C(var(name))])));
    if all {
        v.push(("g.paren".into(), bin("Assign", "=", 14, 13, 14, paren(var(name)), num("5"))));
        v.push(("g.member".into(), bin("AssignAdd", "+=", 14, 13, 14, member(var(name), "fld"), num("5"))));
        v.push((
            "g.tuple".into(),
            bin("Assign", "=", 14, 13, 14, nodep("List", 0, vec![T("("), C(var(name)), T(","), C(var("yy")), T(")")]), call(var("two"), vec![])),
        ));
        v.push(("g.index2".into(), bin("Assign", "=", 14, 13, 14, subscript(subscript(var(name), num("0")), num("1")), num("5"))));
    }
    v
}

/// every position (as a whole file) in which an expression can sit, with the given expressions
fn positions(exprs: &[(String, Frag)], tier: Tier) -> Vec<(String, Vec<String>)> {
    let ealts = expr_alts();
    let salts = stmt_alts();
    let simples = simple_alts();
    let ctxs = expr_contexts();
    let mut out: Vec<(String, Vec<String>)> = Vec::new();
    let in_c = |f: Frag| file(vec![pragma(PRAGMA), contract("C", vec![f])]);
    for c in &ctxs {
        if let H::E(class) = c.hole {
            for (n, f) in exprs {
                out.push((format!("{}<-{}", c.name, n), (c.wrap)(fit(class, f)).toks));
            }
        }
    }
    let fk = func_kinds();
    for (n, st) in stmt_expr_holes(&salts, &simples, exprs) {
        out.push((format!("stmt:{}", n), in_c(func("f", &["public"], vec![st.clone()])).toks));
        if tier == Tier::Thorough {
            for (kn, kw) in &fk {
                out.push((format!("stmt:{}@{}", n, kn), kw(st.clone()).toks));
            }
        }
    }
    // inside every expression hole of every expression alternative
    for a in ealts.iter().filter(|a| !a.atom) {
        for h in 0..a.holes.len() {
            for (n, f) in exprs {
                let e = build_e(a, Some((h, f)));
                out.push((format!("expr:{}[{}]<-{}", a.name, h, n), in_c(func("f", &["external"], vec![expr_stmt(e)])).toks));
            }
        }
    }
    // as a statement in every statement hole, in every function kind
    let leaves: Vec<(String, Frag)> = exprs.iter().map(|(n, f)| (n.clone(), expr_stmt(f.clone()))).collect();
    for depth in 0..=1 {
        for (n, st) in stmt_chains(&salts, &simples, depth, &leaves) {
            for (kn, kw) in &fk {
                out.push((format!("chain:{}@{}", n, kn), kw(st.clone()).toks));
            }
        }
    }
    out
}

pub fn c08(tier: Tier) -> i32 {
    util::quiet();
    let mut run = Run::new("C08", if tier == Tier::Quick { "quick" } else { "thorough" });
    let ds = dets::by_names(C08_DETS);
    if ds.len() != C08_DETS.len() {
        run.machinery("not all 4 detectors are addressable by their documented name".into());
    }
    let state_dets: Vec<_> = ds.iter().filter(|d| d.name != "memory_to_calldata").cloned().collect();
    // ---- holders: how the state variable s0 is declared (and possibly assigned in a constructor)
    let mut holders: Vec<(&str, String)> = vec![
        ("plain", "uint256 s0 ;".into()),
        ("ctor", "uint256 s0 ; constructor ( ) { s0 = 7 ; }".into()),
        ("init", "uint256 s0 = 3 ;".into()),
        ("constant", "uint256 constant s0 = 3 ;".into()),
        ("immutable", "uint256 immutable s0 ; constructor ( ) { s0 = 7 ; }".into()),
        ("address.ctor", "address s0 ; constructor ( ) { s0 = msg . sender ; }".into()),
        ("private.ctor", "bytes32 private s0 ; constructor ( bytes32 k ) { s0 = k ; }".into()),
        ("bytes32.ctor.conversion", "bytes32 s0 ; constructor ( uint256 seed ) { s0 = bytes32 ( seed ) ; }".into()),
        // constant / immutable after and before a visibility keyword
        ("ctor.after-string", "string name0 ; uint256 s0 ; constructor ( ) { name0 = \"T\" ; s0 = 7 ; }".into()),
        ("ctor.after-abi", "bytes blob0 ; address s0 ; constructor ( ) { blob0 = abi . encode ( 1 ) ; s0 = msg . sender ; }".into()),
        ("public.constant", "uint256 public constant s0 = 3 ;".into()),
        ("constant.internal", "uint256 constant internal s0 = 3 ;".into()),
        ("private.immutable.ctor", "uint256 private immutable s0 ; constructor ( ) { s0 = 7 ; }".into()),
        ("immutable.public.ctor", "address immutable public s0 ; constructor ( ) { s0 = msg . sender ; }".into()),
    ];
    // the contract kind that holds the declaration when it is placed in a contract of its own
    let holder_kinds: Vec<&str> = vec!["contract H {", "abstract contract H {"];
    if tier == Tier::Thorough {
        holders.extend(vec![
            ("bool.ctor.call", "bool s0 ; constructor ( ) { s0 = decide ( 1 ) ; }".into()),
            ("string.ctor", "string s0 ; constructor ( ) { s0 = \"s\" ; }".into()),
            ("bytes.ctor.abi", "bytes s0 ; constructor ( ) { s0 = abi . encode ( 1 ) ; }".into()),
            ("mapping", "mapping ( address => uint256 ) s0 ;".into()),
            ("array", "uint256 [ ] s0 ;".into()),
            ("ctor.compound", "uint256 s0 ; constructor ( ) { s0 += 7 ; }".into()),
            ("ctor.twice", "uint256 s0 ; constructor ( ) { s0 = 7 ; s0 = 8 ; }".into()),
            ("public.immutable.init", "uint256 public immutable s0 = 3 ;".into()),
        ]);
    }
    let forms = write_forms("s0", tier == Tier::Thorough);
    let pos = positions(&forms, tier);
    let mut items: Vec<(String, String, Vec<usize>)> = Vec::new();
    for (hn, decl) in &holders {
        let d = toks_of(decl);
        // holder alone: the "always suggests" halves
        for hk in &holder_kinds {
            let mut alone = toks_of("pragma solidity 0.8.19 ;");
            alone.extend(toks_of(hk));
            alone.extend(d.clone());
            alone.push("}".into());
            items.push(l1_item(format!("holder-alone:{}:{}", hn, hk), &alone));
        }
        for (pn, toks) in &pos {
            // (1) declaration in the same contract as the write, when there is a contract C
            if let Some(v) = inject_into_c(toks, &d) {
                items.push(l1_item(format!("same:{}:{}", hn, pn), &v));
            }
            // (2) declaration in another contract after / before the code that writes
            let mut after = toks.clone();
            after.extend(toks_of(holder_kinds[pn.len() % holder_kinds.len()]));
            after.extend(d.clone());
            after.push("}".into());
            items.push(l1_item(format!("other-after:{}:{}", hn, pn), &after));
            if tier == Tier::Thorough || pn.len() % 3 == 0 {
                // pragma stays first: insert the holder right after the 4 pragma tokens
                let mut before = toks[..4].to_vec();
                before.extend(toks_of("contract H {"));
                before.extend(d.clone());
                before.push("}".into());
                before.extend_from_slice(&toks[4..]);
                items.push(l1_item(format!("other-before:{}:{}", hn, pn), &before));
            }
        }
    }
    // type axis of the "always suggests" halves: every elementary type, never written / assigned in the constructor from a
    // parameter, a literal-like value, a conversion; with a second variable of another type beside it; alone in its contract
    for tyname in ["uint256", "uint8", "uint", "int256", "int8", "int", "bool", "address", "address payable", "bytes1", "bytes4", "bytes32", "string", "bytes"] {
        let conv = if tyname == "address payable" { "payable" } else { tyname };
        for (fnm, decl) in [
            ("unwritten", format!("{} s0 ;", tyname)),
            ("unwritten.public", format!("{} public s0 ;", tyname)),
            ("ctor.param", format!("{} s0 ; constructor ( {} {} k ) {{ s0 = k ; }}", tyname, tyname, if tyname == "string" || tyname == "bytes" { "memory" } else { "" })),
            ("ctor.member", format!("{} public s0 ; constructor ( ) {{ s0 = cfg . value ; }}", tyname)),
            ("ctor.conversion", format!("{} private s0 ; constructor ( uint160 seed ) {{ s0 = {} ( seed ) ; }}", tyname, conv)),
            ("ctor.beside", format!("uint256 other0 ; {} s0 ; bool flag0 ; constructor ( ) {{ other0 = 1 ; s0 = initial ( ) ; flag0 = true ; }}", tyname)),
        ] {
            for hk in &holder_kinds {
                let mut alone = toks_of("pragma solidity 0.8.19 ;");
                alone.extend(toks_of(hk));
                alone.extend(toks_of(&decl));
                alone.push("}".into());
                items.push(l1_item(format!("types:{}:{}:{}", tyname, fnm, hk), &alone));
            }
        }
    }
    // another contract with a constructor of its own (and no write to s0) before / after the holder
    for (hn, decl) in &holders {
        let d = toks_of(decl);
        for other in ["contract First { uint256 other1 ; constructor ( ) { other1 = 1 ; } }", "contract First { constructor ( ) { } function g ( ) external { } }", "abstract contract First { address other2 ; constructor ( address a ) { other2 = a ; } }"] {
            for before in [true, false] {
                let mut v = toks_of("pragma solidity 0.8.19 ;");
                if before {
                    v.extend(toks_of(other));
                }
                v.extend(toks_of("contract H {"));
                v.extend(d.clone());
                v.push("}".into());
                if !before {
                    v.extend(toks_of(other));
                }
                items.push(l1_item(format!("two-constructors:{}:{}:{}", hn, &other[..24], before), &v));
            }
        }
    }
    // the quantifier excludes files in which the state-variable name is declared twice
    let keep = util::par_map(items.len(), |i| refdet::unique_state_var_names(&items[i].1));
    let items: Vec<_> = items.into_iter().zip(keep).filter(|(_, k)| *k).map(|(x, _)| x).collect();
    let sw = refdet::sweep_texts(&items, &state_dets, Mode::Semantic);
    require_must(&mut run, &sw, &["constant_variables", "immutable_variables", "sstore"], "write-sites");
    let sample1 = json!({"label": items[items.len() / 2].0, "text": items[items.len() / 2].1});
    absorb(&mut run, sw, "write-sites");

    // ---- histories: files analysed one after the other on one thread; names declared in an earlier file
    //      (a base contract) must not turn assignments to locals / return variables of a later file into
    //      state-variable writes, in either order
    {
        let base = toks_of("pragma solidity 0.8.19 ; contract Base { uint256 fee ; address owner ; uint256 s0 ; function setFee ( uint256 f ) external { fee = f ; } }");
        let later = toks_of("pragma solidity 0.8.19 ; contract Vault is Base { uint256 shares ; function mint ( uint256 n ) external { shares = n ; } } contract Quoter { function quote ( uint256 a ) external returns ( uint256 fee ) { fee = a / 100 ; address owner ; owner = msg . sender ; uint256 s0 ; s0 = a ; } }");
        let plain = toks_of("pragma solidity 0.8.19 ; contract Plain { uint256 kept ; constructor ( ) { kept = 1 ; } }");
        let a = l1_item("history:Base".into(), &base);
        let b = l1_item("history:Vault+Quoter".into(), &later);
        let c = l1_item("history:Plain".into(), &plain);
        for seq in [vec![a.clone(), b.clone()], vec![b.clone(), a.clone()], vec![a.clone(), c.clone(), b.clone()], vec![b.clone(), b.clone()], vec![c.clone(), a.clone(), b.clone(), a.clone()]] {
            let (hv, hc) = refdet::sequence_check(&seq, &state_dets, Mode::Semantic);
            run.merge_violations(hv);
            run.add("transitions", hc);
            run.add("states", seq.len() as u64);
        }
    }
    // ---- two write sites (thorough): one canonical position x every position of a sub-alphabet
    if tier == Tier::Thorough {
        let forms2 = write_forms("s0", false);
        let pos2 = positions(&forms2[..3], Tier::Quick);
        let mut items2 = Vec::new();
        for (hn, decl) in holders.iter().take(3) {
            let d = toks_of(decl);
            for (pn, toks) in pos2.iter().step_by(2) {
                for second in ["function second ( ) external { s0 -= 1 ; }", "modifier second ( ) { s0 ++ ; _ ; }", "constructor ( uint256 z ) { s0 = z ; }"] {
                    let mut decl2 = d.clone();
                    decl2.extend(toks_of(second));
                    let mut v = toks.clone();
                    v.extend(toks_of("contract H {"));
                    v.extend(decl2);
                    v.push("}".into());
                    items2.push(l1_item(format!("two:{}:{}:{}", hn, pn, &second[..12]), &v));
                }
            }
        }
        let sw2 = refdet::sweep_texts(&items2, &state_dets, Mode::Semantic);
        absorb(&mut run, sw2, "two-write-sites");
    }

    // ---- memory_to_calldata: parameter space
    let m2c: Vec<_> = ds.iter().filter(|d| d.name == "memory_to_calldata").cloned().collect();
    let pforms = {
        let mut v = write_forms("p", tier == Tier::Thorough);
        v.push(("none".into(), var("unrelated")));
        v.push(("read".into(), bin("Assign", "=", 14, 13, 14, var("q"), subscript(var("p"), num("0")))));
        v.push(("w.other".into(), bin("Assign", "=", 14, 13, 14, var("q"), var("p"))));
        // the parameter is only READ inside the index / key of another variable's assignment target
        v.push(("idx.key".into(), bin("Assign", "=", 14, 13, 14, subscript(var("q"), var("p")), num("1"))));
        v.push(("idx.call".into(), bin("Assign", "=", 14, 13, 14, subscript(var("q"), call(var("keccak256"), vec![var("p")])), num("1"))));
        v.push(("idx.nested".into(), bin("AssignAdd", "+=", 14, 13, 14, subscript(var("q"), subscript(var("p"), num("0"))), num("1"))));
        v.push(("idx.member".into(), bin("Assign", "=", 14, 13, 14, member(subscript(var("q"), member(var("p"), "length")), "x"), num("1"))));
        v
    };
    let salts = stmt_alts();
    let simples = simple_alts();
    let mut bodies: Vec<(String, Frag)> = Vec::new();
    let leaves: Vec<(String, Frag)> = pforms.iter().map(|(n, f)| (n.clone(), expr_stmt(f.clone()))).collect();
    bodies.extend(leaves.iter().cloned());
    bodies.extend(stmt_chains(&salts, &simples, 1, &leaves));
    bodies.extend(stmt_expr_holes(&salts, &simples, &pforms));
    let mut items3: Vec<(String, String, Vec<usize>)> = Vec::new();
    let heads: Vec<(&str, Vec<&'static str>, bool)> = vec![
        ("function", vec!["function", "f"], false),
        ("constructor", vec!["constructor"], false),
        ("modifier", vec!["modifier", "mm"], false),
        ("fallback", vec!["fallback"], false),
        ("free", vec!["function", "g"], true),
    ];
    for (hl, head, filelevel) in &heads {
        for vis in ["", "public", "external", "internal", "private"] {
            if (*hl == "modifier" || *hl == "constructor") && !vis.is_empty() && vis != "public" {
                continue;
            }
            for loc in ["memory", "calldata", "storage", ""] {
                for named in [true, false] {
                    for (tyname, tyfrag) in [("bytes", ty("bytes")), ("uint256[]", nodep("ArraySubscript", 0, vec![C(ty("uint256")), T("["), T("]")]))] {
                        for (bn, body) in bodies.iter() {
                            // thin the cross product outside the interesting corner
                            let interesting = loc == "memory" && named;
                            if !interesting && !(bn == "none" || bn == "w.Assign" || bn == "g.index") {
                                continue;
                            }
                            if tier == Tier::Quick && interesting && tyname == "uint256[]" && bn.contains('[') && !bn.starts_with("Block") {
                                continue;
                            }
                            let mut p: Vec<crate::synth::P> = head.iter().map(|t| T(t)).collect();
                            p.push(T("("));
                            p.push(C(ty("uint256")));
                            p.push(T("n"));
                            p.push(T(","));
                            p.push(C(tyfrag.clone()));
                            if !loc.is_empty() {
                                p.push(T(match loc {
                                    "memory" => "memory",
                                    "calldata" => "calldata",
                                    _ => "storage",
                                }));
                            }
                            if named {
                                p.push(T("p"));
                            }
                            p.push(T(")"));
                            if !vis.is_empty() {
                                p.push(T(vis));
                            }
                            // rotate a mutability attribute through the space
                            match (bn.len() + tyname.len() + vis.len()) % 4 {
                                1 => p.push(T("view")),
                                2 => p.push(T("pure")),
                                3 => p.push(T("payable")),
                                _ => {}
                            }
                            p.push(C(block(vec![body.clone()])));
                            let fd = node("FunctionDefinition", p);
                            let f = if *filelevel { file(vec![pragma(PRAGMA), fd]) } else { file(vec![pragma(PRAGMA), contract("C", vec![fd])]) };
                            items3.push(l1_item(format!("param:{}:{}:{}:{}:{}:{}", hl, vis, loc, named, tyname, bn), &f.toks));
                        }
                    }
                }
            }
        }
    }
    // functions without body, two functions with the same parameter name, write in the other one
    for t in [
        "pragma solidity 0.8.19 ; contract C { function f ( bytes memory p ) external ; }",
        "pragma solidity 0.8.19 ; interface I { function f ( bytes memory p ) external ; }",
        "pragma solidity 0.8.19 ; contract C { function f ( bytes memory p ) external { } function g ( bytes memory p ) external { p = p ; } }",
        "pragma solidity 0.8.19 ; contract C { function g ( bytes memory p ) external { p = p ; } function f ( bytes memory p ) external { } }",
        "pragma solidity 0.8.19 ; contract C { function f ( bytes memory p , bytes memory q ) external { q = p ; } }",
        "pragma solidity 0.8.19 ; contract C { function f ( bytes memory p ) external returns ( bytes memory r ) { r = p ; } }",
        "pragma solidity 0.8.19 ; contract C { function f ( bytes memory p ) public m ( p ) { } }",
        "pragma solidity 0.8.19 ; contract C { function f ( bytes memory p , bytes memory q ) external view returns ( bytes memory ) { p = q ; return p ; } }",
        "pragma solidity 0.8.19 ; contract C { function sort ( uint256 [ ] memory items , uint256 key ) public pure { items [ 0 ] = key ; } }",
        "pragma solidity 0.8.19 ; contract C { function f ( bytes memory p ) external view returns ( uint256 ) { return p . length ; } }",
        "pragma solidity 0.8.19 ; contract C { function f ( bytes memory a , bytes memory b , string memory c ) external pure { } }",
    ] {
        items3.push(l1_item(format!("param-extra:{}", t), &toks_of(t)));
    }
    // sequences of members: what one function leaves behind must not reach the next one (a constructor, a declaration
    // without body, a function that writes its parameter, each followed or preceded by every other form), in one contract,
    // split over two contracts, and followed by a free function
    {
        let members = [
            "constructor ( bytes memory p ) { }",
            "constructor ( bytes memory p , string memory s ) { s = s ; }",
            "function decl ( bytes memory d ) external ;",
            "function w ( bytes memory a ) external { a = a ; }",
            "function r ( bytes memory b ) external { }",
            "function none ( ) external { }",
            "function cd ( bytes calldata c ) external { }",
            "function priv ( bytes memory e ) private { }",
            "modifier mm ( bytes memory m ) { _ ; }",
            "fallback ( bytes calldata i ) external returns ( bytes memory o ) { }",
            "function idx ( uint256 [ ] memory x ) public { x [ 0 ] = 1 ; }",
            "function same ( bytes memory p ) external { }",
            "function wsame ( bytes memory p ) external { p = p ; }",
        ];
        for (i, a) in members.iter().enumerate() {
            for (j, b) in members.iter().enumerate() {
                if i == j || (a.starts_with("constructor") && b.starts_with("constructor")) {
                    continue;
                }
                items3.push(l1_item(format!("seq:one:{}:{}", i, j), &toks_of(&format!("pragma solidity 0.8.19 ; contract C {{ {} {} }}", a, b))));
                items3.push(l1_item(format!("seq:two:{}:{}", i, j), &toks_of(&format!("pragma solidity 0.8.19 ; abstract contract C {{ {} }} contract D {{ {} }}", a, b))));
                if !b.starts_with("constructor") && !b.starts_with("modifier") && !b.starts_with("fallback") {
                    items3.push(l1_item(format!("seq:free:{}:{}", i, j), &toks_of(&format!("pragma solidity 0.8.19 ; contract C {{ {} }} {}", a, b.replace("external", "").replace("public", "").replace("private", "")))));
                }
            }
        }
    }
    // names x language version: a function may carry the name of any contract-like definition of the file (only the
    // name of its OWN contract makes it an old-style constructor, and only that case is gray), under every
    // pragma spelling incl. none
    for pragma in ["", "pragma solidity 0.4.26 ;", "pragma solidity ^ 0.4.0 ;", "pragma solidity >= 0.4.22 < 0.6.0 ;", "pragma solidity 0.5.0 ;", "pragma solidity 0.8.19 ;"] {
        for other in ["contract D { }", "interface D { }", "library D { }", "abstract contract D { }"] {
            for other_first in [true, false] {
                for fname in ["f", "C", "D", "c"] {
                    for (hk, close) in [("contract C {", "}"), ("library C {", "}"), ("contract C is D {", "}")] {
                        let mut v = toks_of(pragma);
                        if other_first {
                            v.extend(toks_of(other));
                        }
                        v.extend(toks_of(hk));
                        v.extend(toks_of(&format!("function {} ( bytes memory p , uint256 [ ] memory q ) public {{ q [ 0 ] = 1 ; }} function keep ( string memory s ) external {{ }}", fname)));
                        v.extend(toks_of(close));
                        if !other_first {
                            v.extend(toks_of(other));
                        }
                        items3.push(l1_item(format!("names:{}:{}:{}:{}:{}", pragma, other, other_first, fname, hk), &v));
                    }
                }
            }
        }
    }
    {
        let mut it = crate::scale::width_items(tier == Tier::Thorough);
        it.extend(crate::scale::shape_items());
        scale_sweep(&mut run, &ds, it, "scale");
    }
    let sw3 = refdet::sweep_texts(&items3, &m2c, Mode::Semantic);
    require_must(&mut run, &sw3, &["memory_to_calldata"], "parameters");
    let sample3 = json!({"label": items3[items3.len() / 2].0, "text": items3[items3.len() / 2].1});
    absorb(&mut run, sw3, "parameters");
    finish(
        run,
        "states = files of the write-site space W: a state variable s0 declared in 12 (20) ways (plain, constructor-assigned, initialised, constant, immutable, several types) in the same contract / another contract after / before, x one write of every form (11 assignment operators, ++/--, gray forms) in EVERY expression hole (declaration contexts, statement operands, operands of every expression alternative) and every statement hole of every function kind; thorough adds a second write site; memory_to_calldata: function kind x visibility x data location x named x type x every write form in every statement / expression hole of the body; oracle = reference detectors 8.21–8.24; non-trivial = distinct (detector, reported set) outcomes",
        if tier == Tier::Quick { "one write site, 7 declaration forms, 9 write forms" } else { "two write sites, 15 declaration forms, 21 write forms, all function kinds per statement operand" },
        json!([sample1, sample3]),
    )
}

// ======================================================================================= C09

pub fn c09(tier: Tier) -> i32 {
    util::quiet();
    let mut run = Run::new("C09", if tier == Tier::Quick { "quick" } else { "thorough" });
    let ds = dets::by_names(C09_DETS);
    if ds.len() != C09_DETS.len() {
        run.machinery("not all 4 detectors are addressable by their documented name".into());
    }
    let patches: Vec<u32> = if tier == Tier::Quick { vec![0, 1, 2, 3, 4, 5, 9, 10, 39, 40] } else { (0..=40).collect() };
    let ops = ["", "^", "~", "=", ">=", ">", "^ ", "~ ", "= ", ">= ", "> "];
    let strings: Vec<String> = vec![
        "".into(),
        "a".into(),
        "x".repeat(31),
        "x".repeat(32),
        "x".repeat(33),
        "x".repeat(64),
        "é".repeat(16),
        "é".repeat(15) + "x",
    ];
    let mut body = String::new();
    for (i, s) in strings.iter().enumerate() {
        body.push_str(&format!("require ( c{} , \"{}\" ) ; ", i, s));
    }
    body.push_str("require ( \"only-argument\" ) ; require ( c ) ; require ( \"first\" , c ) ; assert ( c ) ; other ( c , \"");
    body.push_str(&"y".repeat(40));
    body.push_str("\" ) ; r = a . add ( b ) ; r = a . sub ( b ) . mul ( d ) ; r = a . div ( b ) ; r = a . mod ( b ) ; r = add ( a , b ) ;");
    let bodies: Vec<(&str, String)> = vec![
        ("attached-contract", format!("contract C {{ using SafeMath for uint256 ; function f ( ) public {{ {} }} }}", body)),
        ("attached-file", format!("using SafeMath for uint256 ; contract C {{ function f ( ) public {{ {} }} }}", body)),
        ("not-attached", format!("contract C {{ using Other for uint256 ; function f ( ) public {{ {} }} }}", body)),
        // other spellings of "attaches a library called SafeMath": through a qualified path, for every type
        ("attached-then-other-using", format!("contract C {{ using SafeMath for uint256 ; using SafeERC20 for IERC20 ; function f ( ) public {{ {} }} }}", body)),
        ("other-using-then-attached", format!("using Address for address ; contract C {{ using SafeMath for uint256 ; function f ( ) public {{ {} }} }} library Address {{ }}", body)),
        ("attached-qualified", format!("import \"./math/SafeMath.sol\" as Math ; contract C {{ using Math . SafeMath for uint256 ; function f ( ) public {{ {} }} }}", body)),
        ("attached-star-file", format!("using SafeMath for * ; library SafeMath {{ }} contract C {{ function f ( ) public {{ {} }} }}", body)),
    ];
    let placements = ["none", "experimental-before", "abicoder-before", "both-before", "after", "solidity-last"];
    let mut items: Vec<(String, String, Vec<usize>)> = Vec::new();
    // strings contain blanks-free text, so whitespace tokenisation is safe except for the empty string
    let tokenise = |s: &str| -> Vec<String> { s.split(' ').filter(|x| !x.is_empty()).map(|x| x.to_string()).collect() };
    for major in 0..=1u32 {
        for minor in 0..=20u32 {
            for &patch in &patches {
                for (oi, op) in ops.iter().enumerate() {
                    // thin the (operator x placement x body) product away from the thresholds in the quick tier
                    let near = (major == 0 && (7..=9).contains(&minor)) || (major == 1 && minor == 0);
                    for (pi, pl) in placements.iter().enumerate() {
                        for (bi, (bn, btxt)) in bodies.iter().enumerate() {
                            if tier == Tier::Quick && !near && (oi + pi + bi + (patch as usize) + (minor as usize)) % 7 != 0 {
                                continue;
                            }
                            let value = format!("{}{}.{}.{}", op, major, minor, patch);
                            let sol = vec!["pragma".to_string(), "solidity".to_string(), value.clone(), ";".to_string()];
                            let exp = tokenise("pragma experimental ABIEncoderV2 ;");
                            let abi = tokenise("pragma abicoder v2 ;");
                            let b = tokenise(btxt);
                            let mut toks: Vec<String> = Vec::new();
                            match *pl {
                                "none" => {
                                    toks.extend(sol);
                                    toks.extend(b);
                                }
                                "experimental-before" => {
                                    toks.extend(exp);
                                    toks.extend(sol);
                                    toks.extend(b);
                                }
                                "abicoder-before" => {
                                    toks.extend(abi);
                                    toks.extend(sol);
                                    toks.extend(b);
                                }
                                "both-before" => {
                                    toks.extend(exp);
                                    toks.extend(abi);
                                    toks.extend(sol);
                                    toks.extend(b);
                                }
                                "after" => {
                                    toks.extend(sol);
                                    toks.extend(b);
                                    toks.extend(exp);
                                    toks.extend(abi);
                                }
                                _ => {
                                    toks.extend(abi);
                                    toks.extend(b);
                                    toks.extend(sol);
                                }
                            }
                            items.push(l1_item(format!("v:{}:{}:{}", value, pl, bn), &toks));
                        }
                    }
                }
            }
        }
    }
    let sw = refdet::sweep_texts(&items, &ds, Mode::Semantic);
    require_must(&mut run, &sw, C09_DETS, "versions");
    let sample = json!({"label": items[items.len() / 2].0, "text": items[items.len() / 2].1});
    run.set("versions_enumerated", (2 * 21 * patches.len()) as u64);
    absorb(&mut run, sw, "versions");

    // ---- call sites and require strings in every hole (Σ), with SafeMath attached at file level,
    //      for one version on either side of the thresholds
    let c = corpus::build(Tier::Quick);
    let mut items2: Vec<(String, String, Vec<usize>)> = Vec::new();
    for p in c.progs.iter().filter(|p| p.tag.contains("atom.safe_add") || p.tag.contains("atom.require_long") || p.tag.contains("atom.require_plain") || p.tag.contains("atom.x_add_empty")) {
        if p.toks.len() < 4 || p.toks[0] != "pragma" {
            continue;
        }
        for ver in ["0.7.6", "0.8.0", "0.8.3", "0.8.4"] {
            let mut t = p.toks.clone();
            t[2] = ver.to_string();
            t.extend(toks_of("using SafeMath for uint256 ;"));
            items2.push(l1_item(format!("{}@{}", p.tag, ver), &t));
        }
    }
    // ... and as statements in every statement hole of every statement alternative (depth 1 and 2: blocks,
    // unchecked blocks, loop bodies, both branches, try success blocks with and without a returns clause, catch
    // clauses), again on either side of the thresholds
    {
        let salts = stmt_alts();
        let simples = simple_alts();
        let leaves: Vec<(String, Frag)> = vec![
            ("safe_add".to_string(), expr_stmt(call(member(var("p"), "add"), vec![var("q")]))),
            ("safe_chain".to_string(), expr_stmt(call(member(call(member(var("p"), "sub"), vec![var("q")]), "mul"), vec![var("r")]))),
            ("require_long".to_string(), expr_stmt(call(var("require"), vec![var("p"), strlit("this revert string is longer than thirty-two bytes")]))),
            ("require_short".to_string(), expr_stmt(call(var("require"), vec![var("p"), strlit("m")]))),
        ];
        let max_depth = if tier == Tier::Quick { 1 } else { 2 };
        for depth in 1..=max_depth {
            for (n, f) in stmt_chains(&salts, &simples, depth, &leaves) {
                let base = crate::synth::in_func(f);
                if base.toks.len() < 4 || base.toks[0] != "pragma" {
                    continue;
                }
                for ver in ["0.7.6", "0.8.0", "0.8.3", "0.8.4"] {
                    let mut t = base.toks.clone();
                    t[2] = ver.to_string();
                    t.extend(toks_of("using SafeMath for uint256 ;"));
                    items2.push(l1_item(format!("stmt-hole:{}@{}", n, ver), &t));
                }
            }
        }
    }
    let sw2 = refdet::sweep_texts(&items2, &ds, Mode::Semantic);
    require_must(&mut run, &sw2, C09_DETS, "every-hole");
    absorb(&mut run, sw2, "every-hole");
    scale_sweep(&mut run, &ds, crate::scale::string_items(tier == Tier::Thorough), "scale");
    // ---- the same verdicts through analyze_dir, with unusual but valid spellings of the directives
    {
        let mut texts: Vec<(String, String)> = Vec::new();
        let b = "contract C {\n  using SafeMath for uint256;\n  function f(uint256 a, bool c) public {\n    require(c, \"this revert string is longer than thirty-two bytes\");\n    require(c, \"short\");\n    a.add(1);\n  }\n}\n";
        for ver in ["0.7.6", "0.8.0", "0.8.3", "0.8.4", "0.8.19"] {
            for spelling in [
                "pragma solidity VER;\n",
                "pragma /* compiler */ solidity VER;\n",
                "pragma/**/solidity >=VER;\n",
                "pragma // c\nsolidity VER;\n",
                "pragma\tsolidity\t^VER ;\n",
                "pragma\r\nsolidity\r\n=VER\r\n;\r\n",
                "\n\n  pragma solidity VER;",
                "/* pragma solidity 0.4.0; */ pragma solidity VER; // pragma solidity 0.9.9;\n",
            ] {
                texts.push((format!("{}@{}", spelling.escape_debug(), ver), format!("{}{}", spelling.replace("VER", ver), b)));
                texts.push((format!("after:{}@{}", spelling.escape_debug(), ver), format!("{}{}", b, spelling.replace("VER", ver))));
            }
        }
        let (dvs, dn) = crate::fsx::dir_equals_file(&texts, (C09_DETS, &[], &[]));
        run.merge_violations(dvs);
        run.add("states", dn);
        run.add("transitions", dn * 2);
        run.set("directory_level_spellings", dn);
    }
    finish(
        run,
        "states = files: every version triple {0,1} x {0..20} x {0..40} (quick: 10 patch values, product thinned away from the thresholds) x 11 operator spellings x 6 placements of unrelated pragmas / of the solidity pragma x 3 bodies (SafeMath attached at contract level / file level / not attached) holding add/sub/mul/div call sites and require strings of 0,1,31,32,33,64 bytes and 16 two-byte characters, require without string and with a non-final string; plus SafeMath calls and require strings in every syntactic hole for versions 0.7.6/0.8.0/0.8.3/0.8.4; oracle = thresholds 0.8.0 and 0.8.4 on the (major, minor, patch) triple printed by the harness; non-trivial = distinct (detector, reported set) outcomes",
        if tier == Tier::Quick { "420 versions (thinned product), full product near the thresholds" } else { "all 1722 versions x full product" },
        json!([sample]),
    )
}
