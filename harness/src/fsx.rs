//! File-system exploration (DESIGN.md section 9): scratch trees built from descriptions, listing
//! orders owned through the seam `solstat::verif_fs`, binary-level replays on tmpfs.
//! Serves C03, C16 and the directory level of C13.

use crate::corpus::Tier;
use crate::ev::{Run, Violation};
use crate::report::{self, permutations, Pat};
use crate::util;
use serde_json::json;
use solstat::analyzer::optimizations::{self as opt, Optimization};
use solstat::analyzer::qa::{self, QualityAssurance};
use solstat::analyzer::vulnerabilities::{self as vul, Vulnerability};
use std::collections::{BTreeMap, BTreeSet, HashMap, HashSet};
use std::ffi::OsString;
use std::path::{Path, PathBuf};

#[derive(Clone, Debug, PartialEq, Eq, Hash, PartialOrd, Ord)]
pub enum Entry {
    File { name: String, content: Vec<u8> },
    Dir { name: String, children: Vec<Entry> },
}

impl Entry {
    pub fn name(&self) -> &str {
        match self {
            Entry::File { name, .. } | Entry::Dir { name, .. } => name,
        }
    }
    pub fn renamed(self, new_name: &str) -> Entry {
        match self {
            Entry::File { content, .. } => Entry::File { name: new_name.to_string(), content },
            Entry::Dir { children, .. } => Entry::Dir { name: new_name.to_string(), children },
        }
    }
    pub fn count(&self) -> usize {
        match self {
            Entry::File { .. } => 1,
            Entry::Dir { children, .. } => 1 + children.iter().map(|c| c.count()).sum::<usize>(),
        }
    }
}

pub fn describe(es: &[Entry]) -> String {
    let mut s = String::new();
    for e in es {
        match e {
            Entry::File { name, content } => s.push_str(&format!("{}[{}B] ", name, content.len())),
            Entry::Dir { name, children } => s.push_str(&format!("{}/{{ {}}} ", name, describe(children))),
        }
    }
    s
}

/// create the entries under `root` in the given order (tmpfs lists in reverse creation order)
pub fn materialise(root: &Path, es: &[Entry]) {
    std::fs::create_dir_all(root).unwrap();
    for e in es {
        match e {
            Entry::File { name, content } => std::fs::write(root.join(name), content).unwrap(),
            Entry::Dir { name, children } => materialise(&root.join(name), children),
        }
    }
}

/// all files of the tree as (relative dir, name, content)
pub fn files_of<'a>(es: &'a [Entry], prefix: &str, out: &mut Vec<(String, &'a str, &'a [u8])>) {
    for e in es {
        match e {
            Entry::File { name, content } => out.push((prefix.to_string(), name.as_str(), content.as_slice())),
            Entry::Dir { name, children } => files_of(children, &format!("{}{}/", prefix, name), out),
        }
    }
}

/// every assignment of a listing order to every directory of the tree (the tree's own child order
/// is one of them); an order table is keyed by the path solstat will hand to read_dir
pub fn all_orders(root: &Path, es: &[Entry]) -> Vec<HashMap<PathBuf, Vec<OsString>>> {
    fn dirs<'a>(path: PathBuf, es: &'a [Entry], out: &mut Vec<(PathBuf, Vec<&'a str>)>) {
        out.push((path.clone(), es.iter().map(|e| e.name()).collect()));
        for e in es {
            if let Entry::Dir { name, children } = e {
                dirs(path.join(name), children, out);
            }
        }
    }
    let mut ds = Vec::new();
    dirs(root.to_path_buf(), es, &mut ds);
    if ds.len() > 12 || ds.iter().any(|(_, names)| names.len() > 7) {
        // very deep or very wide trees: the identity, the fully reversed listing, and two rotations (by one and by half)
        let mut fwd = HashMap::new();
        let mut rev = HashMap::new();
        let mut rot1 = HashMap::new();
        let mut roth = HashMap::new();
        let wide = ds.iter().any(|(_, names)| names.len() > 7);
        for (path, names) in ds {
            let n = names.len().max(1);
            fwd.insert(path.clone(), names.iter().map(|n| OsString::from(*n)).collect());
            rev.insert(path.clone(), names.iter().rev().map(|n| OsString::from(*n)).collect());
            rot1.insert(path.clone(), (0..names.len()).map(|i| OsString::from(names[(i + 1) % n])).collect());
            roth.insert(path, (0..names.len()).map(|i| OsString::from(names[(i + n / 2) % n])).collect());
        }
        let huge = fwd.values().any(|v: &Vec<OsString>| v.len() > 300);
        return if huge { vec![fwd, roth] } else if wide { vec![fwd, rev, rot1, roth] } else { vec![fwd, rev] };
    }
    let mut tables: Vec<HashMap<PathBuf, Vec<OsString>>> = vec![HashMap::new()];
    for (path, names) in ds {
        let perms = permutations(names.len());
        let mut next = Vec::new();
        for t in &tables {
            for p in &perms {
                let mut t2 = t.clone();
                t2.insert(path.clone(), p.iter().map(|&i| OsString::from(names[i])).collect());
                next.push(t2);
            }
        }
        tables = next;
    }
    tables
}

pub fn eligible(name: &str) -> bool {
    name.ends_with(".sol") && !name.to_lowercase().ends_with(".t.sol")
}

pub type Findings = BTreeMap<Pat, Vec<(String, BTreeSet<i32>)>>;

pub struct Selection {
    pub opts: Vec<Optimization>,
    pub vulns: Vec<Vulnerability>,
    pub qas: Vec<QualityAssurance>,
}

pub fn pat_of_opt(o: &Optimization) -> Pat {
    Pat::O(opt::get_all_optimizations().iter().position(|x| x == o).unwrap())
}
pub fn pat_of_vuln(o: &Vulnerability) -> Pat {
    Pat::V(vul::get_all_vulnerabilities().iter().position(|x| x == o).unwrap())
}
pub fn pat_of_qa(o: &QualityAssurance) -> Pat {
    Pat::Q(qa::get_all_qa().iter().position(|x| x == o).unwrap())
}

/// real analyze_dir for the three categories, normalised to sorted multisets
pub fn run_analyze_dir(root: &Path, sel: &Selection) -> Result<Findings, String> {
    let r = root.to_str().unwrap().to_string();
    util::guarded(|| {
        let mut f: Findings = BTreeMap::new();
        for (k, v) in opt::analyze_dir(&r, sel.opts.clone()) {
            f.entry(pat_of_opt(&k)).or_default().extend(v);
        }
        for (k, v) in vul::analyze_dir(&r, sel.vulns.clone()) {
            f.entry(pat_of_vuln(&k)).or_default().extend(v);
        }
        for (k, v) in qa::analyze_dir(&r, sel.qas.clone()) {
            f.entry(pat_of_qa(&k)).or_default().extend(v);
        }
        // a pattern without findings and a file with an empty line set are no findings: whether such keys / pairs are
        // present in the returned map is not something any property fixes
        for v in f.values_mut() {
            v.retain(|(_, ls)| !ls.is_empty());
            // how a file is labelled (bare name, path relative to the analysed directory) is not fixed by any property:
            // labels are compared by their last path component
            for e in v.iter_mut() {
                e.0 = base_name(&e.0);
            }
            v.sort();
        }
        f.retain(|_, v| !v.is_empty());
        f
    })
}

/// last path component of a file label
pub fn base_name(label: &str) -> String {
    // only `/` separates components (a backslash is an ordinary character of a file name here)
    label.rsplit('/').next().unwrap_or(label).to_string()
}

/// the oracle: union of per-file results over eligible files
pub fn per_file_union(es: &[Entry], sel: &Selection) -> Result<Findings, String> {
    let mut files = Vec::new();
    files_of(es, "", &mut files);
    util::guarded(|| {
        let mut f: Findings = BTreeMap::new();
        for (_, name, content) in &files {
            if !eligible(name) {
                continue;
            }
            let text = match std::str::from_utf8(content) {
                Ok(t) => t,
                Err(_) => continue,
            };
            for o in &sel.opts {
                let l = opt::analyze_for_optimization(text, 0, *o);
                if !l.is_empty() {
                    f.entry(pat_of_opt(o)).or_default().push((name.to_string(), l));
                }
            }
            for o in &sel.vulns {
                let l = vul::analyze_for_vulnerability(text, 0, *o);
                if !l.is_empty() {
                    f.entry(pat_of_vuln(o)).or_default().push((name.to_string(), l));
                }
            }
            for o in &sel.qas {
                let l = qa::analyze_for_qa(text, 0, *o);
                if !l.is_empty() {
                    f.entry(pat_of_qa(o)).or_default().push((name.to_string(), l));
                }
            }
        }
        for v in f.values_mut() {
            v.sort();
        }
        f
    })
}

pub const SRC_P: &str = "pragma solidity ^0.8.0;\ncontract A {\n  function f(uint256 a) public payable returns (uint256) {\n    return a + 1;\n  }\n  constructor() {}\n}\n";
pub const SRC_P2: &str = "\n\npragma solidity ^0.8.0;\ncontract A {\n  function f(uint256 a) public payable returns (uint256) {\n    return a + 1;\n  }\n  constructor() {}\n}\n";
pub const SRC_PQ: &str = "pragma solidity ^0.8.0;\ncontract B {\n  uint256 private hidden;\n  function g(uint256 a, uint256 b, address t) public payable returns (bool) {\n    IERC20(t).transfer(t, a - b);\n    return a >= b;\n  }\n  constructor() {}\n}\n";
pub const SRC_SUICIDE: &str = "pragma solidity 0.8.19;\ncontract K {\n  function kill(address payable to) external {\n    suicide(to);\n  }\n}\n";
pub const SRC_SPACED: &str = "pragma solidity ^0.8.0;\ncontract Sp {\n  function g(address t, uint256 a) public payable {\n    IERC20(t) .\n      transfer(t, a - 1);\n    IERC20(t) . /* c */ approve(t, a);\n  }\n}\n";
/// a file without any contract / interface / library: free function, file-level struct, constant, error; and a directive-only file
pub const SRC_FREE: &str = "pragma solidity ^0.8.0;\nfunction free(uint256[] memory p, uint256 q) pure returns (uint256) {\n  return p[0] / q * 4 + q + 1;\n}\nstruct Lone { uint128 a; uint256 b; uint128 c; }\nuint256 constant K = 7 * 2;\nerror Failed(uint256 a);\n";
pub const SRC_DIRECTIVE_ONLY: &str = "pragma solidity ^0.8.0;\n";
pub const SRC_NONE: &str = "pragma solidity 0.8.19;\ncontract N {\n}\n";
pub const GARBAGE: &[u8] = b"this is { not solidity ))) \n";
pub const NON_UTF8: &[u8] = &[0xff, 0xfe, 0x00, 0x80, b'\n', 0xc3];

fn file(name: &str, content: &[u8]) -> Entry {
    Entry::File { name: name.to_string(), content: content.to_vec() }
}

fn selections(tier: Tier) -> Vec<(String, Selection)> {
    let o = |n: &str| opt::str_to_optimization(n);
    let v = |n: &str| vul::str_to_vulnerability(n);
    let q = |n: &str| qa::str_to_qa(n);
    let mut s = vec![
        ("one".to_string(), Selection { opts: vec![o("solidity_math")], vulns: vec![v("floating_pragma")], qas: vec![q("constructor_order")] }),
        ("selfdestruct".to_string(), Selection { opts: vec![o("payable_function")], vulns: vec![v("unprotected_selfdestruct")], qas: vec![q("private_func_leading_underscore")] }),
        (
            "two".to_string(),
            Selection { opts: vec![o("solidity_math"), o("optimal_comparison")], vulns: vec![v("floating_pragma"), v("unsafe_erc20_operation")], qas: vec![q("constructor_order"), q("private_vars_leading_underscore")] },
        ),
        (
            "two-reversed".to_string(),
            Selection { opts: vec![o("optimal_comparison"), o("solidity_math")], vulns: vec![v("unsafe_erc20_operation"), v("floating_pragma")], qas: vec![q("private_vars_leading_underscore"), q("constructor_order")] },
        ),
    ];
    // the version-gated patterns (their verdict depends on text elsewhere in the file) and the division pattern
    s.push((
        "gated".to_string(),
        Selection { opts: vec![o("safe_math_pre_080"), o("safe_math_post_080"), o("string_errors"), o("short_revert_string")], vulns: vec![v("divide_before_multiply")], qas: vec![q("private_vars_leading_underscore")] },
    ));
    if tier == Tier::Thorough {
        s.push(("all".to_string(), Selection { opts: opt::get_all_optimizations(), vulns: vul::get_all_vulnerabilities(), qas: qa::get_all_qa() }));
    }
    s
}

/// all directory contents with <= budget entries in total and sub-directories up to `depth`
fn gen_dirs(files: &[Entry], depth: usize, budget: usize) -> Vec<Vec<Entry>> {
    // choose a set of files (distinct names) and up to 2 sub-directories
    let mut out: Vec<Vec<Entry>> = Vec::new();
    fn subsets(files: &[Entry], start: usize, budget: usize, cur: &mut Vec<Entry>, out: &mut Vec<Vec<Entry>>) {
        out.push(cur.clone());
        if budget == 0 {
            return;
        }
        for i in start..files.len() {
            if cur.iter().any(|e| e.name() == files[i].name()) {
                continue;
            }
            cur.push(files[i].clone());
            subsets(files, i + 1, budget - 1, cur, out);
            cur.pop();
        }
    }
    let mut file_sets = Vec::new();
    subsets(files, 0, budget, &mut Vec::new(), &mut file_sets);
    for fs in file_sets {
        let used = fs.len();
        out.push(fs.clone());
        if depth == 0 || used >= budget {
            continue;
        }
        let rest = budget - used;
        // one sub-directory
        for sub in gen_dirs(files, depth - 1, rest - 1) {
            let mut v = fs.clone();
            let c: usize = sub.iter().map(|e| e.count()).sum();
            // sub-directory names: an ordinary one, or one that looks like a source file
            let dname = if (used + c + depth) % 3 == 0 { "lib.sol" } else { "d1" };
            v.push(Entry::Dir { name: dname.into(), children: sub.clone() });
            out.push(v.clone());
            // two sub-directories
            if rest >= 2 + c {
                for sub2 in gen_dirs(files, depth - 1, rest - 2 - c) {
                    let mut w = v.clone();
                    w.push(Entry::Dir { name: "d2".into(), children: sub2 });
                    out.push(w);
                }
            }
        }
    }
    let mut seen = HashSet::new();
    out.retain(|t| seen.insert(t.clone()));
    out
}

fn worker_root(tag: &str) -> PathBuf {
    let base = if Path::new("/dev/shm").is_dir() { "/dev/shm".to_string() } else { "/verif/.build/scratch".to_string() };
    PathBuf::from(format!("{}/solstat-mc.{}.{}.{:?}", base, std::process::id(), tag, std::thread::current().id()).replace(['(', ')'], ""))
}

fn diff_findings(a: &Findings, b: &Findings) -> String {
    let mut s = String::new();
    let keys: BTreeSet<&Pat> = a.keys().chain(b.keys()).collect();
    for k in keys {
        let x = a.get(k).cloned().unwrap_or_default();
        let y = b.get(k).cloned().unwrap_or_default();
        if x != y {
            s.push_str(&format!("{:?}: analyze_dir {:?} vs per-file {:?}; ", k, x, y));
        }
    }
    s
}

fn classify(a: &Findings, b: &Findings) -> &'static str {
    let na: usize = a.values().map(|v| v.len()).sum();
    let nb: usize = b.values().map(|v| v.len()).sum();
    if na < nb {
        "lost"
    } else if na > nb {
        "duplicated-or-extra"
    } else {
        "changed"
    }
}

// ======================================================================================= C03

pub fn c03(tier: Tier) -> i32 {
    util::quiet();
    let mut run = Run::new("C03", if tier == Tier::Quick { "quick" } else { "thorough" });
    let alphabet = vec![
        file("A.sol", SRC_P.as_bytes()),
        file("B.sol", SRC_PQ.as_bytes()),
        file("E.sol", b""),
        file("N.sol", SRC_NONE.as_bytes()),
        file("x.txt", GARBAGE),
        file("A.sol", SRC_P2.as_bytes()),
        file("K.sol", SRC_SUICIDE.as_bytes()),
        file(".sol", SRC_PQ.as_bytes()),
        file("S.sol", SRC_SPACED.as_bytes()),
    ];
    let budget = if tier == Tier::Quick { 4 } else { 6 };
    let trees = gen_dirs(&alphabet, 2, budget);
    let mut trees = trees;
    // eligible files at every depth of a long chain of directories (no depth bound in the property)
    for depth in [33usize, 40, 70] {
        let mut cur: Vec<Entry> = vec![file("Deep.sol", SRC_PQ.as_bytes())];
        for k in (0..depth).rev() {
            let mut children = cur;
            if k % 8 == 0 {
                children.push(file(&format!("L{}.sol", k), SRC_P.as_bytes()));
            }
            cur = vec![Entry::Dir { name: "d".into(), children }];
        }
        cur.push(file("Top.sol", SRC_P2.as_bytes()));
        trees.push(cur);
    }
    // name relations between entries (the property quantifies over every tree): names that differ only in letter
    // case, byte-identical copies and same-named files with the same line sets in different directories, names
    // that are prefixes of one another, directories named like source files, non-ASCII names in two normal forms
    {
        let d = |name: &str, children: Vec<Entry>| Entry::Dir { name: name.into(), children };
        let p = SRC_P.as_bytes();
        let pq = SRC_PQ.as_bytes();
        let p2 = SRC_P2.as_bytes();
        let extra: Vec<Vec<Entry>> = vec![
            vec![file("Token.sol", p), file("token.sol", pq)],
            vec![file("Token.sol", p), file("token.sol", p), file("TOKEN.sol", p)],
            vec![d("Lib", vec![file("T.sol", p)]), d("lib", vec![file("T.sol", pq)])],
            vec![d("Lib", vec![file("T.sol", p)]), d("lib", vec![file("t.sol", p)]), file("lib.sol", p2)],
            vec![d("v1", vec![file("Token.sol", p)]), d("v2", vec![file("Token.sol", p)])],
            vec![file("Token.sol", p), d("v2", vec![file("Token.sol", p)])],
            vec![file("Token.sol", pq), d("mocks", vec![file("Token.sol", pq), file("Other.sol", pq)]), file("Zed.sol", pq)],
            vec![d("a", vec![d("x", vec![file("Token.sol", p)])]), d("b", vec![d("x", vec![file("Token.sol", p)])]), file("Copy.sol", p)],
            vec![file("A.sol", p), file("A.sol.sol", pq), file("AA.sol", p2), file("A.so", pq), file("A.solx", pq)],
            vec![d("A.sol.d", vec![file("A.sol", p)]), file("A.sol", pq), d("A", vec![file("A.sol", p2)])],
            vec![file("\u{e9}.sol", p), file("e\u{301}.sol", pq), file("\u{c9}.sol", p2)],
            vec![file("One.sol", p), file("Two.sol", p), file("Three.sol", p), file("Four.sol", pq), file("Five.sol", pq)],
            vec![file("E1.sol", b""), file("E2.sol", b""), file("Blank.sol", b" \n\t\r\n"), file("Z.sol", pq), d("zz", vec![file("Y.sol", p)])],
        ];
        trees.extend(extra);
        // contents in other layouts (the directory result must equal the per-file result whatever the bytes of an eligible
        // file are): a long file with CRLF line ends and findings beyond 1 KB and beyond 4 KB, the same after multi-byte
        // comments, classic CR-only line ends, no final line end; and files that are Solidity only when letter case is ignored
        {
            let mut long = String::from("pragma solidity ^0.8.0;\n");
            for k in 0..40 {
                long.push_str(&format!("contract B{k} {{\n  uint256 private hidden{k};\n  function g(uint256 a, uint256 b, address t) public payable returns (bool) {{\n    IERC20(t).transfer(t, a - b);\n    return a >= b;\n  }}\n  constructor() {{}}\n}}\n"));
            }
            let crlf = long.replace('\n', "\r\n");
            let wide = format!("// \u{e9}\u{4e2d}\u{6587}\u{1f600} \u{43f}\u{440}\n/* \u{e9}\n\u{4e2d} */\nstring constant BANNER = unicode\"{}\";\n{}", "\u{4e2d}\u{6587}\u{1f600}".repeat(60), long).replace("contract B7 ", "/* \u{1f600}\u{1f600} */ contract B7 ");
            let cr = long.replace('\n', "\r");
            let noeol = long.trim_end().to_string();
            let mixed = long.replace("{\n", "{\r\n");
            trees.push(vec![file("Crlf.sol", crlf.as_bytes()), d("sub", vec![file("Wide.sol", wide.as_bytes()), file("NoEol.sol", noeol.as_bytes())]), file("A.sol", p)]);
            trees.push(vec![file("Cr.sol", cr.as_bytes()), file("Mixed.sol", mixed.as_bytes()), d("z", vec![file("Crlf.sol", crlf.as_bytes())])]);
            trees.push(vec![file("Long.sol", long.as_bytes()), file("Crlf.sol", crlf.as_bytes())]);
            trees.push(vec![file("OLDVAULT.SOL", pq), file("Backup.Sol", pq), file("Real.sol", p), d("old", vec![file("x.SOL", pq), file("y.sOl", p2), file("Z.sol", pq)])]);
            // two files of equal length (> 4 KB, > 64 KB) that agree on a long prefix and differ only near the end; the pair in one
            // directory, in sibling directories at the same index, and one of them twice
            for filler in [300usize, 5000] {
                let head = format!("pragma solidity ^0.8.0;\n{}contract Tail {{\n  function f(uint256 a, uint256 b, uint256 c, address t) public payable returns (uint256) {{\n", "// the same long banner line in both files\n".repeat(filler / 3));
                let one = format!("{}    return a / b * c;\n  }}\n}}\n", head);
                let two = format!("{}    return a * b / c;\n  }}\n}}\n", head);
                let three = format!("{}    IERC20(t).transfer(t, a);\n  }}\n}}", head);
                trees.push(vec![file("One.sol", one.as_bytes()), file("Two.sol", two.as_bytes()), file("Three.sol", three.as_bytes())]);
                trees.push(vec![d("a", vec![file("T.sol", one.as_bytes())]), d("b", vec![file("T.sol", two.as_bytes())]), d("c", vec![file("T.sol", one.as_bytes())])]);
            }
            // wide directories: 65, 257 and 1025 eligible files (and a few others between them), flat and with a sub-directory in the
            // middle of the listing; names that differ only in how a number is written; two test files next to each other
            for n in [65usize, 257, 1025] {
                let mut wide: Vec<Entry> = Vec::new();
                for k in 0..n {
                    wide.push(file(&format!("F{:04}.sol", k), if k % 3 == 0 { pq } else if k % 3 == 1 { p } else { p2 }));
                    if k % 97 == 5 {
                        wide.push(file(&format!("note{}.txt", k), GARBAGE));
                    }
                    if k == n / 2 {
                        wide.push(d("mid", vec![file("In.sol", pq), file("F0000.sol", p)]));
                    }
                }
                trees.push(wide);
            }
            trees.push(vec![file("Vault1.sol", p), file("Vault01.sol", pq), file("Vault001.sol", p2), file("Token7.sol", pq), file("Token007.sol", p)]);
            trees.push(vec![file("V18446744073709551616.sol", p), file("V18446744073709551617.sol", pq), file("V018446744073709551616.sol", p2)]);
            trees.push(vec![file("A.t.sol", pq), file("B.t.sol", pq), file("C.sol", p), file("D.T.SOL", pq), file("E.t.sol", pq)]);
            trees.push(vec![file("A.t.sol", pq), file("B.t.sol", pq)]);
            // files without any contract (free functions, file-level struct / constant / error), a directive-only file, an empty and a
            // comment-only file next to ordinary ones
            trees.push(vec![file("Math.sol", SRC_FREE.as_bytes()), file("Only.sol", SRC_DIRECTIVE_ONLY.as_bytes()), file("Token.sol", pq), d("types", vec![file("Types.sol", SRC_FREE.as_bytes()), file("Empty.sol", b""), file("Comment.sol", b"// nothing here\n/* at all */")])]);
            trees.push(vec![file("Only.sol", SRC_DIRECTIVE_ONLY.as_bytes())]);
            trees.push(vec![file("Math.sol", SRC_FREE.as_bytes())]);
            // the same construct at the same byte offset on different lines (a blank run against a line feed), side by side
            let same_off_a = "pragma solidity ^0.8.0; contract A {\n    uint256 private total; function f(uint256 a) public returns (uint256) { return a + 1; }\n}\n";
            let same_off_b = "pragma solidity ^0.8.0; contract A {     uint256 private total; function f(uint256 a) public returns (uint256) { return a + 1; }\n}\n";
            let same_off_c = "pragma solidity ^0.8.0;\ncontract A {     uint256 private total;\nfunction f(uint256 a) public returns (uint256) { return a + 1; } }\n";
            trees.push(vec![file("A.sol", same_off_a.as_bytes()), file("B.sol", same_off_b.as_bytes()), file("C.sol", same_off_c.as_bytes())]);
            trees.push(vec![file("B.sol", same_off_b.as_bytes()), d("x", vec![file("A.sol", same_off_a.as_bytes())]), file("C.sol", same_off_c.as_bytes())]);
            // text that looks like a version, after the directive: a string constant, a comment, a second contract's own pragma-like text
            let ver_after = |pragma: &str, later: &str| format!("pragma solidity {};\n{}\ncontract V {{\n  using SafeMath for uint256;\n  string public constant VERSION = \"{}\";\n  function f(uint256 a, bool c) public payable returns (uint256) {{\n    require(c, \"a revert string that is longer than thirty-two bytes\");\n    return a.add(1);\n  }}\n}}\n", pragma, "// built with 0.4.26 / deployed as 1.0.0", later);
            trees.push(vec![file("V1.sol", ver_after("^0.8.4", "1.0.0").as_bytes()), file("V2.sol", ver_after("0.7.6", "0.8.19").as_bytes()), file("V3.sol", ver_after("0.8.19", "0.7.6").as_bytes()), file("V4.sol", ver_after(">=0.8.0 <0.9.0", "2.0.0").as_bytes())]);
        }
        // files that refer to each other: imports between siblings (also cyclic, of itself, of a missing file, of a file in
        // a sub-directory) and a derived contract in another file that writes the base contract's variables
        let imp = |imports: &str, body: &str| format!("{}{}", imports, body);
        let base = "pragma solidity ^0.8.0;\ncontract Base {\n  uint256 public fee = 100;\n  address public owner;\n  constructor() { owner = msg.sender; }\n}\n";
        let derived = "pragma solidity ^0.8.0;\nimport \"./Base.sol\";\ncontract Derived is Base {\n  function setFee(uint256 f) external payable { fee = f; }\n  function setOwner(address o) external payable { owner = o; }\n}\n";
        let related: Vec<Vec<Entry>> = vec![
            vec![file("A.sol", imp("import \"./B.sol\";\n", SRC_P).as_bytes()), file("B.sol", imp("import {A} from \"./A.sol\";\n", SRC_PQ).as_bytes())],
            vec![file("Self.sol", imp("import \"./Self.sol\";\n", SRC_PQ).as_bytes()), file("Other.sol", p)],
            vec![file("A.sol", imp("import \"./B.sol\";\n", SRC_P).as_bytes()), file("B.sol", imp("import \"./C.sol\";\n", SRC_PQ).as_bytes()), file("C.sol", imp("import * as X from \"./A.sol\";\n", SRC_P2).as_bytes())],
            vec![file("A.sol", imp("import \"./Missing.sol\";\nimport \"./sub/B.sol\";\nimport \"../up.sol\";\n", SRC_P).as_bytes()), d("sub", vec![file("B.sol", imp("import \"../A.sol\";\n", SRC_PQ).as_bytes())])],
            vec![file("Base.sol", base.as_bytes()), file("Derived.sol", derived.as_bytes())],
            vec![d("core", vec![file("Base.sol", base.as_bytes())]), file("Derived.sol", derived.replace("./Base.sol", "./core/Base.sol").as_bytes()), file("Zed.sol", pq)],
        ];
        trees.extend(related);
        // directory and file names with characters that are special to shells, globs, lists, URLs and format strings; next to
        // each a sibling named like the part before the special character
        for special in [",", " ", ";", ":", "=", "'", "\"", "*", "?", "[x]", "#", "%20", "|", "&", "$", "~", "+", "{line}", "{}", "(1)", "@", "!", "\t", "\\", "^", "`", "<", ">", "..", "%s"] {
            let dname = format!("pool{}staking", special);
            trees.push(vec![d(&dname, vec![file("In.sol", p)]), d("pool", vec![file("Plain.sol", pq)])]);
            trees.push(vec![file(&format!("Tok{}en.sol", special), p), d("sub", vec![file(&format!("{}x.sol", special), pq)]), file("Tok.sol", p2)]);
        }
        for lead in ["-rf", "--path", "-", ".hidden", "~", "#x#"] {
            trees.push(vec![d(lead, vec![file("In.sol", p)]), file(&format!("{}.sol", lead), pq)]);
        }
    }
    let sels = selections(tier);
    let res = util::par_map(trees.len(), |ti| {
        let tree = &trees[ti];
        let root = worker_root("c03");
        let _ = std::fs::remove_dir_all(&root);
        materialise(&root, tree);
        let mut vs = Vec::new();
        let mut states = 0u64;
        let mut calls = 0u64;
        let mut outcomes = HashSet::new();
        let wide_tree = tree.len() > 64;
        let t_tree = std::time::Instant::now();
        for (sn, sel) in &sels {
            // wide directories are about counting entries, not about patterns: one selection
            if wide_tree && sn != "one" {
                continue;
            }
            let want = match per_file_union(tree, sel) {
                Ok(w) => w,
                Err(e) => {
                    vs.push(Violation { site: "per-file:panic".into(), input: describe(tree), expected: "per-file analysis returns".into(), observed: e, size: 0, unit_test: String::new(), extra: json!({}) });
                    continue;
                }
            };
            for order in all_orders(&root, tree) {
                states += 1;
                calls += 3;
                solstat::verif_fs::set_order(order.clone());
                let got = run_analyze_dir(&root, sel);
                solstat::verif_fs::clear_order();
                let listing: Vec<String> = order.iter().map(|(k, v)| format!("{}: {:?}", k.strip_prefix(&root).unwrap_or(k).display(), v)).collect();
                match got {
                    Ok(g) => {
                        outcomes.insert(util::fnv(&format!("{:?}", g)));
                        if g != want {
                            vs.push(Violation {
                                site: format!("analyze_dir:{}", classify(&g, &want)),
                                input: format!("tree {} listing order {{{}}} patterns '{}'", describe(tree), listing.join("; "), sn),
                                expected: "for every selected pattern exactly the (file, line set) pairs obtained by analysing each eligible file on its own".into(),
                                observed: diff_findings(&g, &want),
                                size: tree.iter().map(|e| e.count()).sum::<usize>() * 100 + listing.len(),
                                unit_test: String::new(),
                                extra: json!({}),
                            });
                        }
                    }
                    Err(e) => vs.push(Violation {
                        site: "analyze_dir:panic".into(),
                        input: format!("tree {} listing order {{{}}}", describe(tree), listing.join("; ")),
                        expected: "returns".into(),
                        observed: e,
                        size: tree.len(),
                        unit_test: String::new(),
                        extra: json!({}),
                    }),
                }
            }
        }
        if t_tree.elapsed().as_secs_f64() > 60.0 {
            eprintln!("[C03 phase] tree #{} ({} root entries, {}) took {:.1}s", ti, tree.len(), describe(tree).chars().take(60).collect::<String>(), t_tree.elapsed().as_secs_f64());
        }
        let _ = std::fs::remove_dir_all(&root);
        (vs, states, calls, outcomes)
    });
    let mut states = 0u64;
    let mut calls = 0u64;
    let mut outcomes: HashSet<u64> = HashSet::new();
    for (vs, s, c, o) in res {
        states += s;
        calls += c;
        outcomes.extend(o);
        run.merge_violations(vs);
    }
    // ---- histories in one process: analyse, rewrite a file in place with different content of the same
    //      byte length (and with different length), analyse again; each result must be the per-file union
    //      of the tree as it is at that moment
    {
        let root = worker_root("c03hist");
        let variants: Vec<(&str, String)> = vec![
            ("v1", "pragma solidity ^0.8.0;\ncontract A {\n  function burn(uint256 a) private returns (uint256) {\n    return a + 1;\n  }\n}\n".to_string()),
            ("v2-same-length", "pragma solidity ^0.8.0;\ncontract A {\n  function _brn(uint256 a) public  returns (uint256) {\n    return a + 1;\n  }\n}\n".to_string()),
            ("v3-same-length", "pragma solidity  0.8.0;\ncontract A {\n  function burn(uint256 a) private returns (uint256) {\n    return a >= 1;\n  }\n}\n".to_string()),
            ("v4-longer", "\n\npragma solidity ^0.8.0;\ncontract A {\n  function burn(uint256 a) private returns (uint256) {\n    return a + 1;\n  }\n}\n".to_string()),
        ];
        let sel = Selection { opts: opt::get_all_optimizations(), vulns: vul::get_all_vulnerabilities(), qas: qa::get_all_qa() };
        for order in permutations(variants.len()) {
            let _ = std::fs::remove_dir_all(&root);
            let mut hist: Vec<&str> = Vec::new();
            for &k in &order {
                let (name, content) = &variants[k];
                hist.push(name);
                let tree = vec![file("A.sol", content.as_bytes()), Entry::Dir { name: "sub".into(), children: vec![file("A.sol", variants[(k + 1) % variants.len()].1.as_bytes())] }];
                materialise(&root, &tree);
                states += 1;
                calls += 3;
                let got = run_analyze_dir(&root, &sel);
                let want = per_file_union(&tree, &sel);
                if got != want {
                    run.violation(Violation {
                        site: "analyze_dir:stale-after-rewrite".into(),
                        input: format!("A.sol and sub/A.sol rewritten in place; history of contents {:?}", hist),
                        expected: "the result reflects the files as they are now".into(),
                        observed: match (&got, &want) {
                            (Ok(g), Ok(w)) => diff_findings(g, w),
                            _ => format!("{:?} vs {:?}", got.is_ok(), want.is_ok()),
                        },
                        size: hist.len(),
                        unit_test: String::new(),
                        extra: json!({}),
                    });
                }
            }
        }
        let _ = std::fs::remove_dir_all(&root);
    }
    // ---- binary-level replay of small trees on tmpfs (creation history decides the listing order)
    let rp = binary_replay(&trees.iter().filter(|t| t.iter().map(|e| e.count()).sum::<usize>() <= 3).cloned().collect::<Vec<_>>(), &mut run);
    run.set("states", states);
    run.set("transitions", calls);
    run.set("traces_validated_against_impl", rp.0);
    run.set("binary_replays_order_obtained", rp.0);
    run.set("binary_replays_order_not_obtainable", rp.1);
    run.set("evaluations", calls);
    run.set("distinct_nontrivial", outcomes.len() as u64);
    run.set("trees", trees.len() as u64);
    run.set(
        "rule",
        "states = (directory tree, listing order of every directory, selected pattern list): all trees with <= 4 (quick) / 6 (thorough) entries, depth <= 2, over files {findings for p; for p and q; blank; no findings; ineligible; same name as another file with identical / shifted line sets} x every permutation of every directory's listing (seam) x pattern lists (one, two in both orders, thorough: all); oracle = sorted multiset of (file name, line set) per pattern from analysing each eligible file alone; binary level: trees of <= 3 entries materialised on tmpfs in a creation order that yields the wanted listing (verified by reading the directory back), unhooked binary, report parsed back; non-trivial = distinct analyze_dir results",
    );
    run.set("bound_completed", format!("entries <= {}, depth <= 2", budget));
    run.set("samples", json!(trees.iter().step_by(trees.len() / 3 + 1).take(3).map(|t| describe(t)).collect::<Vec<_>>()));
    run.assume("file names are valid Unicode; no symbolic links or unreadable files");
    run.finish()
}

/// returns (replayed, not obtainable)
fn binary_replay(trees: &[Vec<Entry>], run: &mut Run) -> (u64, u64) {
    let bin = std::env::var("SOLSTAT_BIN").unwrap_or_default();
    if bin.is_empty() || !Path::new(&bin).exists() {
        run.machinery("SOLSTAT_BIN (unhooked binary) not found".into());
        return (0, 0);
    }
    let tb = report::tables();
    let sel_all = Selection { opts: opt::get_all_optimizations(), vulns: vul::get_all_vulnerabilities(), qas: qa::get_all_qa() };
    let res = util::par_map(trees.len(), |ti| {
        let tree = &trees[ti];
        let mut vs = Vec::new();
        let mut ok = 0u64;
        let mut skipped = 0u64;
        let want = match per_file_union(tree, &sel_all) {
            Ok(w) => w,
            Err(_) => return (vs, ok, skipped),
        };
        // every order of the root directory (sub-directories keep one order each)
        for p in permutations(tree.len()) {
            let root = worker_root("c03bin");
            let _ = std::fs::remove_dir_all(&root);
            let cwd = root.join("cwd");
            let target = root.join("in");
            std::fs::create_dir_all(&cwd).unwrap();
            // tmpfs lists in reverse creation order: create in reverse of the wanted order
            let wanted: Vec<&Entry> = p.iter().map(|&i| &tree[i]).collect();
            std::fs::create_dir_all(&target).unwrap();
            for e in wanted.iter().rev() {
                materialise(&target, std::slice::from_ref(*e));
            }
            let listed: Vec<String> = std::fs::read_dir(&target).unwrap().map(|e| e.unwrap().file_name().to_string_lossy().to_string()).collect();
            let wanted_names: Vec<String> = wanted.iter().map(|e| e.name().to_string()).collect();
            if listed != wanted_names {
                skipped += 1;
                let _ = std::fs::remove_dir_all(&root);
                continue;
            }
            let out = std::process::Command::new(&bin).arg("--path").arg(&target).current_dir(&cwd).env_clear().env("PATH", "/usr/bin:/bin").output();
            let rep = std::fs::read_to_string(cwd.join("solstat_report.md"));
            match (out, rep) {
                (Ok(o), Ok(r)) if crate::binx::completed(o.status.code()) => {
                    ok += 1;
                    let parsed = report::parse_report(&r, &tb);
                    // compare entries (file, line) per pattern as multisets
                    let mut want_e: BTreeMap<Pat, Vec<(String, i64)>> = BTreeMap::new();
                    for (k, v) in &want {
                        let e = want_e.entry(*k).or_default();
                        for (f, ls) in v {
                            for l in ls {
                                e.push((f.clone(), *l as i64));
                            }
                        }
                        e.sort();
                    }
                    let mut got_e = parsed.entries.clone();
                    for v in got_e.values_mut() {
                        for e in v.iter_mut() {
                            e.0 = base_name(&e.0);
                        }
                        v.sort();
                    }
                    got_e.retain(|_, v| !v.is_empty());
                    if got_e != want_e {
                        vs.push(Violation {
                            site: "binary:report-differs-from-per-file-union".into(),
                            input: format!("tree {} root listing {:?}", describe(tree), wanted_names),
                            expected: format!("{:?}", want_e),
                            observed: format!("{:?}", got_e),
                            size: tree.len() * 100,
                            unit_test: String::new(),
                            extra: json!({}),
                        });
                    }
                }
                (Ok(o), _) => vs.push(Violation {
                    site: "binary:failed".into(),
                    input: format!("tree {} root listing {:?}", describe(tree), wanted_names),
                    expected: "exit 0 and a report".into(),
                    observed: format!("status {:?} stderr {}", o.status, String::from_utf8_lossy(&o.stderr).chars().take(300).collect::<String>()),
                    size: tree.len() * 100,
                    unit_test: String::new(),
                    extra: json!({}),
                }),
                (Err(e), _) => vs.push(Violation { site: "MACHINERY".into(), input: String::new(), expected: String::new(), observed: format!("cannot run binary: {}", e), size: 0, unit_test: String::new(), extra: json!({}) }),
            }
            let _ = std::fs::remove_dir_all(&root);
        }
        (vs, ok, skipped)
    });
    let mut ok = 0;
    let mut skipped = 0;
    for (vs, o, s) in res {
        ok += o;
        skipped += s;
        for v in vs {
            if v.site == "MACHINERY" {
                run.machinery(v.observed);
            } else {
                run.violation(v);
            }
        }
    }
    (ok, skipped)
}

// ======================================================================================= C16

pub fn c16(tier: Tier) -> i32 {
    util::quiet();
    let mut run = Run::new("C16", if tier == Tier::Quick { "quick" } else { "thorough" });
    let names_inelig = [
        "a.SOL", "a.Sol", "a.sOL", "a.t.sol", "a.T.sol", "a.t.Sol", "a.T.SOL", "asol", "sol", ".t.sol", "a.sol.txt", "a.solx", "a.t.sol.bak", "a.txt", "README.md", "solstat_report.md", "naïve.md", "é.json",
        "日本語メモ.txt", "a.sol~", "A.T.Sol", "Überprüfung.t.sol", "Solstat.toml", "solstat.toml", ".gitignore", "foundry.toml",
        // digit runs beyond u64 / non-ASCII numerals (a name-ordering helper would parse them)
        "115792089237316195423570985008687907853269984665640564039457584007913129639935.json", "area-m\u{b2}.csv", "\u{663}.txt", "\u{bd}.md", "2024-01-01_18446744073709551616.log",
    ];
    let names_elig = ["a.sol", ".sol", "t.sol", "é.sol", "a b.sol", "tt.sol", "at.sol", "x.y.sol", "T.sol", "sol.sol", "t..sol", "a.tsol.sol"];
    // names in which ".t.sol" occurs before the end (a.t.sol.sol, x.t.solx.sol) are in neither list: whether such a file "is a
    // Foundry test file ('.t.sol')" is a reading the property does not settle (the pinned filter says yes), see DESIGN 15.2
    for n in names_inelig {
        if eligible(n) {
            run.machinery(format!("alphabet error: {} is eligible", n));
        }
    }
    for n in names_elig {
        if !eligible(n) {
            run.machinery(format!("alphabet error: {} is not eligible", n));
        }
    }
    const NARROW_TOML: &[u8] = b"path = './nowhere'\noptimizations = [\"sstore\"]\nvulnerabilities = []\nqa = []\n";
    let contents_inelig: [&[u8]; 5] = [SRC_PQ.as_bytes(), b"", GARBAGE, NON_UTF8, NARROW_TOML];
    // an eligible file without a version pragma that imports ineligible neighbours by name (`a.t.sol`, `a.txt`, ...): what
    // those files contain must not reach its verdicts
    const SRC_IMPORTER: &str = "import \"./a.t.sol\";\nimport \"./a.txt\";\nimport {X} from \"./a.T.sol\";\nimport \"./README.md\";\nimport \"../d1/a.t.sol\";\ncontract Imp {\n  using SafeMath for uint256;\n  function f(uint256 a, bool c) public payable returns (uint256) {\n    require(c, \"a revert string that is longer than thirty-two bytes\");\n    return a.add(1);\n  }\n}\n";
    let contents_elig: [&[u8]; 4] = [SRC_P.as_bytes(), SRC_PQ.as_bytes(), b"", SRC_IMPORTER.as_bytes()];
    let mut inelig: Vec<Entry> = Vec::new();
    for n in names_inelig {
        for c in contents_inelig {
            inelig.push(file(n, c));
        }
    }
    let mut elig: Vec<Entry> = Vec::new();
    for (i, n) in names_elig.iter().enumerate() {
        // every eligible name carries findings (an eligible file that is dropped must be missed); the empty content rotates in
        // as a second file of the same name in the thorough tier and for every fourth name here
        // (the importing file has no findings of its own unless something leaks into it)
        let with_findings = [contents_elig[0], contents_elig[1]];
        elig.push(file(n, with_findings[i % 2]));
        if i % 4 == 2 && tier == Tier::Quick {
            elig.push(file(n, contents_elig[2]));
        }
        if i % 4 == 0 && tier == Tier::Quick {
            elig.push(file(n, contents_elig[3]));
        }
        if tier == Tier::Thorough {
            elig.push(file(n, contents_elig[(i + 1) % 4]));
        }
    }
    // trees: [ineligible], [eligible], [eligible, ineligible], [ineligible, ineligible'], at depth 0..2
    let mut trees: Vec<Vec<Entry>> = Vec::new();
    let wrap = |es: Vec<Entry>, depth: usize| -> Vec<Entry> {
        // directory names rotate over ordinary, hidden and source-like names
        let dn = [".deps", "d1", "lib.sol", "h.t.sol"][es.iter().map(|e| e.name().len()).sum::<usize>() % 4];
        match depth {
            0 => es,
            1 => vec![Entry::Dir { name: dn.into(), children: es }],
            _ => vec![Entry::Dir { name: "d1".into(), children: vec![Entry::Dir { name: dn.into(), children: es }] }],
        }
    };
    for depth in 0..=2 {
        for i in &inelig {
            trees.push(wrap(vec![i.clone()], depth));
            for (k, e) in elig.iter().enumerate() {
                if depth > 0 && k % 2 == 1 && tier == Tier::Quick {
                    continue;
                }
                trees.push(wrap(vec![e.clone(), i.clone()], depth));
                if depth == 1 {
                    // eligible at the root, ineligible in the sub-directory and vice versa
                    trees.push(vec![e.clone(), Entry::Dir { name: "d1".into(), children: vec![i.clone()] }]);
                    trees.push(vec![i.clone(), Entry::Dir { name: "d1".into(), children: vec![e.clone()] }]);
                }
            }
        }
        for e in &elig {
            trees.push(wrap(vec![e.clone()], depth));
        }
    }
    // "exactly the eligible files ... at every depth": several eligible files that share a name and / or their
    // content (vendored copies, versioned directories), at different depths, mixed with ineligible files
    {
        let d = |name: &str, children: Vec<Entry>| Entry::Dir { name: name.into(), children };
        let p = SRC_P.as_bytes();
        let pq = SRC_PQ.as_bytes();
        for (k, i) in inelig.iter().enumerate().step_by(if tier == Tier::Quick { 9 } else { 2 }) {
            let i2 = &inelig[(k + 7) % inelig.len()];
            trees.push(vec![d("v1", vec![file("Token.sol", p), i.clone()]), d("v2", vec![file("Token.sol", p)])]);
            trees.push(vec![file("Token.sol", pq), d("mocks", vec![file("Token.sol", pq), i.clone()]), i2.clone()]);
            trees.push(vec![d("a", vec![d("x", vec![file("Token.sol", p)])]), d("b", vec![d("x", vec![file("Token.sol", p), i.clone()])]), file("Copy.sol", p)]);
            trees.push(vec![file("One.sol", p), file("Two.sol", p), d("three", vec![file("Three.sol", p), i.clone()])]);
        }
    }
    // wide directories (65 / 257 / 1025 eligible files with other files between them) and test files next to each other
    for n in [65usize, 257, 1025] {
        let mut wide: Vec<Entry> = Vec::new();
        for k in 0..n {
            wide.push(file(&format!("F{:04}.sol", k), contents_elig[k % 2]));
            if k % 13 == 5 {
                wide.push(inelig[(k * 7) % inelig.len()].clone().renamed(&format!("{}-{}", k, inelig[(k * 7) % inelig.len()].name())));
            }
        }
        trees.push(wide);
    }
    {
        let pq = SRC_PQ.as_bytes();
        trees.push(vec![file("A.t.sol", pq), file("B.t.sol", pq)]);
        trees.push(vec![file("A.t.sol", pq), file("B.t.sol", pq), file("C.sol", SRC_P.as_bytes()), file("D.T.SOL", pq), file("E.t.sol", pq)]);
        trees.push(vec![file("A.t.sol", pq), file("B.T.sol", GARBAGE), file("C.t.Sol", pq), file("Real.sol", pq)]);
        // two eligible files of equal byte length and different findings at the same position of sibling directories; another
        // file in one of the directories shifts the position (and must change nothing)
        let with = SRC_P.as_bytes().to_vec();
        let without = SRC_P.replace("return a + 1;", "return a    ;").replace("^0.8.0", " 0.8.0").into_bytes();
        assert_eq!(with.len(), without.len());
        let fa = |n: &str| Entry::File { name: n.into(), content: with.clone() };
        let fb = |n: &str| Entry::File { name: n.into(), content: without.clone() };
        let dd = |name: &str, children: Vec<Entry>| Entry::Dir { name: name.into(), children };
        trees.push(vec![dd("token", vec![fa("Token.sol")]), dd("vault", vec![fb("Vault.sol")])]);
        trees.push(vec![dd("token", vec![fb("Token.sol")]), dd("vault", vec![fa("Vault.sol")])]);
        trees.push(vec![dd("token", vec![fa("Token.sol")]), dd("vault", vec![file("notes.txt", GARBAGE), fb("Vault.sol")])]);
        trees.push(vec![dd("token", vec![file("a.t.sol", pq), fb("Token.sol")]), dd("vault", vec![file("b.t.sol", GARBAGE), fa("Vault.sol")])]);
        trees.push(vec![fa("Same.sol"), dd("sub", vec![fb("Same.sol")]), dd("sub2", vec![fa("Same.sol")])]);
        // eligible files without any contract, next to files that are not analysed
        trees.push(vec![dd("libraries", vec![file("Math.sol", SRC_FREE.as_bytes()), file("Math.t.sol", pq)]), file("Only.sol", SRC_DIRECTIVE_ONLY.as_bytes()), file("notes.txt", GARBAGE)]);
    }
    // an eligible file 70 directories deep next to ineligible ones on the way down
    {
        let mut cur: Vec<Entry> = vec![elig[0].clone(), inelig[3].clone()];
        for k in (0..70).rev() {
            let mut children = cur;
            if k % 10 == 0 {
                children.push(inelig[(k * 7) % inelig.len()].clone());
            }
            // names must stay unique within a directory
            let mut seen = HashSet::new();
            children.retain(|e| seen.insert(e.name().to_string()));
            cur = vec![Entry::Dir { name: "n".into(), children }];
        }
        trees.push(cur);
    }
    let step = if tier == Tier::Quick { 7 } else { 2 };
    for (a, i) in inelig.iter().enumerate() {
        for (b, j) in inelig.iter().enumerate() {
            if a < b && i.name() != j.name() && (a * 31 + b) % step == 0 {
                trees.push(vec![i.clone(), j.clone(), elig[(a + b) % elig.len()].clone()]);
                if tier == Tier::Thorough {
                    let e1 = &elig[(a + b) % elig.len()];
                    let e2 = &elig[(a + b + 2) % elig.len()];
                    if e1.name() != e2.name() {
                        trees.push(vec![i.clone(), e1.clone(), j.clone(), e2.clone()]);
                    }
                }
            }
        }
    }
    fn names_unique(es: &[Entry]) -> bool {
        let mut seen = HashSet::new();
        es.iter().all(|e| seen.insert(e.name().to_string()) && match e { Entry::Dir { children, .. } => names_unique(children), _ => true })
    }
    let before = trees.len();
    trees.retain(|t| names_unique(t));
    if trees.len() != before {
        run.machinery(format!("tree generator produced {} trees with a repeated name in one directory", before - trees.len()));
    }
    let sel = Selection {
        // incl. the version-gated patterns: their verdict depends on a directive, which must be the analysed file's own
        opts: ["solidity_math", "optimal_comparison", "safe_math_pre_080", "safe_math_post_080", "string_errors", "short_revert_string", "payable_function"].iter().map(|n| opt::str_to_optimization(n)).collect(),
        vulns: vec![vul::str_to_vulnerability("floating_pragma"), vul::str_to_vulnerability("unsafe_erc20_operation")],
        qas: vec![qa::str_to_qa("constructor_order"), qa::str_to_qa("private_vars_leading_underscore")],
    };
    // no vacuous alphabet symbol: every eligible NAME occurs with a content that has findings under this selection (a
    // dropped file without findings cannot be missed)
    for n in names_elig {
        let covered = elig.iter().filter(|e| e.name() == n).any(|e| per_file_union(&[e.clone()], &sel).map(|f| f.values().any(|v| v.iter().any(|(_, l)| !l.is_empty()))).unwrap_or(false));
        if !covered {
            run.machinery(format!("alphabet error: the eligible name {:?} never carries a content with findings", n));
        }
    }
    fn strip_ineligible(es: &[Entry]) -> Vec<Entry> {
        es.iter()
            .filter_map(|e| match e {
                Entry::File { name, .. } => {
                    if eligible(name) {
                        Some(e.clone())
                    } else {
                        None
                    }
                }
                Entry::Dir { name, children } => Some(Entry::Dir { name: name.clone(), children: strip_ineligible(children) }),
            })
            .collect()
    }
    let res = util::par_map(trees.len(), |ti| {
        let tree = &trees[ti];
        let mut vs = Vec::new();
        let mut states = 0u64;
        let mut calls = 0u64;
        let mut outcomes = HashSet::new();
        let want = match per_file_union(tree, &sel) {
            Ok(w) => w,
            Err(e) => {
                vs.push(Violation { site: "per-file:panic".into(), input: describe(tree), expected: String::new(), observed: e, size: 0, unit_test: String::new(), extra: json!({}) });
                return (vs, states, calls, outcomes);
            }
        };
        // "as if absent": the same tree without its ineligible files
        let root2 = worker_root("c16b");
        let _ = std::fs::remove_dir_all(&root2);
        let stripped = strip_ineligible(tree);
        materialise(&root2, &stripped);
        let absent = run_analyze_dir(&root2, &sel);
        let _ = std::fs::remove_dir_all(&root2);
        let root = worker_root("c16");
        let _ = std::fs::remove_dir_all(&root);
        materialise(&root, tree);
        for order in all_orders(&root, tree) {
            states += 1;
            calls += 3;
            solstat::verif_fs::set_order(order.clone());
            let got = run_analyze_dir(&root, &sel);
            solstat::verif_fs::clear_order();
            let bad_names: Vec<String> = {
                let mut f = Vec::new();
                files_of(tree, "", &mut f);
                f.iter().filter(|(_, n, _)| !eligible(n)).map(|(_, n, c)| format!("{}[{}]", n, if c.is_empty() { "empty" } else if std::str::from_utf8(c).is_err() { "non-utf8" } else if *c == GARBAGE { "garbage" } else { "valid" })).collect()
            };
            match got {
                Ok(g) => {
                    outcomes.insert(util::fnv(&format!("{:?}", g)));
                    if g != want {
                        vs.push(Violation {
                            site: format!("analyze_dir:ineligible-file-not-inert:{}", classify(&g, &want)),
                            input: format!("tree {}", describe(tree)),
                            expected: "exactly the per-file results of the eligible files (name ends in .sol and not in .t.sol, any letter case)".into(),
                            observed: diff_findings(&g, &want),
                            size: tree.iter().map(|e| e.count()).sum::<usize>() * 100,
                            unit_test: String::new(),
                            extra: json!({"ineligible": bad_names}),
                        });
                    }
                    if let Ok(a) = &absent {
                        if *a != g {
                            vs.push(Violation {
                                site: "analyze_dir:differs-from-tree-without-ineligible-files".into(),
                                input: format!("tree {}", describe(tree)),
                                expected: "same result as if the ineligible files were absent".into(),
                                observed: diff_findings(&g, a),
                                size: tree.iter().map(|e| e.count()).sum::<usize>() * 100,
                                unit_test: String::new(),
                                extra: json!({}),
                            });
                        }
                    }
                }
                Err(e) => vs.push(Violation {
                    site: format!("analyze_dir:panic-on-ineligible-file:{}", e.chars().take(40).collect::<String>()),
                    input: format!("tree {}", describe(tree)),
                    expected: "an ineligible file cannot make the run fail".into(),
                    observed: format!("panic: {} (ineligible files: {:?})", e, bad_names),
                    size: tree.iter().map(|e| e.count()).sum::<usize>() * 100,
                    unit_test: String::new(),
                    extra: json!({}),
                }),
            }
        }
        // the same tree named relatively to the process's working directory, and with a trailing slash: which files are analysed
        // does not depend on how the directory is spelled (trees with a sub-directory only)
        if tree.iter().any(|e| matches!(e, Entry::Dir { .. })) {
            if let Ok(cwd) = std::env::current_dir() {
                let ups = cwd.components().filter(|c| matches!(c, std::path::Component::Normal(_))).count();
                let rel = format!("{}{}", "../".repeat(ups), root.to_string_lossy().trim_start_matches('/'));
                let abs = run_analyze_dir(&root, &sel);
                for spelled in [rel.clone(), format!("{}/", root.to_string_lossy()), format!("{}/", rel), format!("./{}", rel)] {
                    states += 1;
                    calls += 3;
                    let got = run_analyze_dir(Path::new(&spelled), &sel);
                    if got != abs {
                        vs.push(Violation {
                            site: "analyze_dir:result-depends-on-the-spelling-of-the-directory".into(),
                            input: format!("tree {} named {:?}", describe(tree), spelled),
                            expected: "the same result as for the absolute path".into(),
                            observed: match (&got, &abs) {
                                (Ok(g), Ok(a)) => diff_findings(g, a),
                                _ => format!("{:?} vs {:?}", got.is_ok(), abs.is_ok()),
                            },
                            size: tree.iter().map(|e| e.count()).sum::<usize>() * 100,
                            unit_test: String::new(),
                            extra: json!({}),
                        });
                    }
                }
            }
        }
        let _ = std::fs::remove_dir_all(&root);
        (vs, states, calls, outcomes)
    });
    let mut states = 0u64;
    let mut calls = 0u64;
    let mut outcomes: HashSet<u64> = HashSet::new();
    for (vs, s, c, o) in res {
        states += s;
        calls += c;
        outcomes.extend(o);
        run.merge_violations(vs);
    }
    // binary replay for depth <= 1 trees with <= 2 root entries
    let step = if tier == Tier::Quick { 5 } else { 1 };
    let small: Vec<Vec<Entry>> = trees
        .iter()
        .filter(|t| t.len() <= 2 && t.iter().map(|e| e.count()).sum::<usize>() <= 3)
        .enumerate()
        .filter(|(i, t)| i % step == 0 || t.iter().any(|e| e.name().to_lowercase().ends_with(".toml")))
        .map(|(_, t)| t.clone())
        .collect();
    let rp = binary_replay(&small, &mut run);
    run.set("states", states);
    run.set("transitions", calls);
    run.set("traces_validated_against_impl", rp.0);
    run.set("binary_replays_order_not_obtainable", rp.1);
    run.set("evaluations", calls);
    run.set("distinct_nontrivial", outcomes.len() as u64);
    run.set("trees", trees.len() as u64);
    run.set(
        "rule",
        "states = (tree, listing order): 22 ineligible names (case variants of .sol/.t.sol, look-alikes, multi-byte names) x 4 contents (valid Solidity, empty, unparseable, non-UTF-8) alone, next to each of 8 eligible files, in pairs, at depth 0, 1 and 2, every listing order; oracle = eligibility predicate (ends with '.sol' and not, case-insensitively, with '.t.sol') + per-file union + differential 'same as the tree without its ineligible files' + no panic; binary replay for small trees; non-trivial = distinct analyze_dir results",
    );
    run.set("bound_completed", "<= 3 (quick) / 4 (thorough) entries per tree, depth <= 2");
    run.set("samples", json!(trees.iter().step_by(trees.len() / 3 + 1).take(3).map(|t| describe(t)).collect::<Vec<_>>()));
    run.assume("names that contain '.t.sol' case-insensitively NOT as a suffix while ending in '.sol' are left out: the property does not say whether they are test files");
    run.finish()
}

// ======================================================================================= C13 directory level

pub struct DirLevel {
    pub violations: Vec<Violation>,
    pub machinery: Vec<String>,
    pub states: u64,
    pub transitions: u64,
    pub distinct_reports: u64,
    pub binary_runs: u64,
}

pub fn c13_directory_level(tier: Tier) -> DirLevel {
    let mut dl = DirLevel { violations: Vec::new(), machinery: Vec::new(), states: 0, transitions: 0, distinct_reports: 0, binary_runs: 0 };
    let trees: Vec<Vec<Entry>> = vec![
        vec![file("A.sol", SRC_P.as_bytes()), file("B.sol", SRC_PQ.as_bytes())],
        vec![file("A.sol", SRC_P.as_bytes()), file("B.sol", SRC_PQ.as_bytes()), file("C.sol", SRC_PQ.as_bytes())],
        vec![Entry::Dir { name: "v1".into(), children: vec![file("Token.sol", SRC_P.as_bytes())] }, Entry::Dir { name: "v2".into(), children: vec![file("Token.sol", SRC_P2.as_bytes())] }, file("B.sol", SRC_PQ.as_bytes())],
        vec![file("Token.sol", SRC_P2.as_bytes()), Entry::Dir { name: "sub".into(), children: vec![file("Token.sol", SRC_P.as_bytes()), file("Z.sol", SRC_PQ.as_bytes())] }],
        // two different files of the same byte length at the same listing index of sibling directories
        vec![
            Entry::Dir { name: "a".into(), children: vec![file("Vault.sol", format!("\n\n{}", SRC_PQ).as_bytes())] },
            Entry::Dir { name: "b".into(), children: vec![file("Guard.sol", format!("{}\n\n", SRC_PQ.replace("a >= b", "a >  b")).as_bytes())] },
        ],
        // identical copies of one file in two directories, another file possibly listed between them
        vec![
            Entry::Dir { name: "x".into(), children: vec![file("IERC20.sol", SRC_P.as_bytes())] },
            Entry::Dir { name: "y".into(), children: vec![file("Pool.sol", SRC_PQ.as_bytes())] },
            Entry::Dir { name: "z".into(), children: vec![file("IERC20.sol", SRC_P.as_bytes())] },
        ],
        // byte-identical content under different names, in one directory and in a sub-directory
        vec![
            file("Vault.sol", SRC_PQ.as_bytes()),
            file("VaultBackup.sol", SRC_PQ.as_bytes()),
            Entry::Dir { name: "lib".into(), children: vec![file("VaultCopy.sol", SRC_PQ.as_bytes()), file("Other.sol", SRC_P.as_bytes())] },
        ],
    ];
    let o = |n: &str| opt::str_to_optimization(n);
    let v = |n: &str| vul::str_to_vulnerability(n);
    let q = |n: &str| qa::str_to_qa(n);
    let base_opts = vec![o("solidity_math"), o("optimal_comparison"), o("payable_function")];
    let base_vulns = vec![v("floating_pragma"), v("unsafe_erc20_operation")];
    let base_qas = vec![q("constructor_order"), q("private_vars_leading_underscore")];
    let dir = report::scratch_dir("c13dir");
    let cwd = dir.join("cwd");
    std::fs::create_dir_all(&cwd).unwrap();
    let old = std::env::current_dir().ok();
    std::env::set_current_dir(&cwd).unwrap();
    let mut reports_seen: HashSet<u64> = HashSet::new();
    for (ti, tree) in trees.iter().enumerate() {
        if tier == Tier::Quick && ti == 1 {
            continue;
        }
        let root = dir.join(format!("t{}", ti));
        materialise(&root, tree);
        let mut first: Option<String> = None;
        let mut planted = false;
        for order in all_orders(&root, tree) {
            for po in permutations(base_opts.len()) {
                for pv in permutations(base_vulns.len()) {
                    for pq in permutations(base_qas.len()) {
                        if tier == Tier::Quick && (po[0] + pv[0] + pq[0]) % 2 == 1 {
                            continue;
                        }
                        dl.states += 1;
                        dl.transitions += 4;
                        // before the second rendering of a tree a longer, unrelated report is put into the working
                        // directory: if anything of it survives, that rendering differs from the first one
                        if first.is_none() {
                            // the first rendering of a tree starts from a clean working directory
                            let _ = std::fs::remove_file(cwd.join("solstat_report.md"));
                            planted = false;
                        } else if !planted {
                            planted = true;
                            let mut stale = String::from("# stale\n");
                            for k in 0..60000 {
                                stale.push_str(&format!("- Stale.sol:{}\n", k));
                            }
                            std::fs::write(cwd.join("solstat_report.md"), stale).unwrap();
                        }
                        // every rendering on a fresh OS thread (stands for a fresh process: thread-local state is empty)
                        let r = std::thread::scope(|sc| {
                            sc.spawn(|| {
                                solstat::verif_fs::set_order(order.clone());
                                let r = util::guarded(|| {
                                    let r = root.to_str().unwrap();
                                    let vm = vul::analyze_dir(r, pv.iter().map(|&i| base_vulns[i]).collect());
                                    let om = opt::analyze_dir(r, po.iter().map(|&i| base_opts[i]).collect());
                                    let qm = qa::analyze_dir(r, pq.iter().map(|&i| base_qas[i]).collect());
                                    solstat::report::generation::generate_report(vm, om, qm);
                                });
                                solstat::verif_fs::clear_order();
                                r
                            })
                            .join()
                            .unwrap()
                        });
                        let rep = std::fs::read_to_string(cwd.join("solstat_report.md"));
                        match (r, rep) {
                            (Ok(()), Ok(text)) => {
                                reports_seen.insert(util::fnv(&text));
                                match &first {
                                    None => first = Some(text),
                                    Some(f0) => {
                                        if *f0 != text {
                                            dl.violations.push(Violation {
                                                site: "directory:report-depends-on-listing-or-pattern-order".into(),
                                                input: format!("tree {}", describe(tree)),
                                                expected: "byte-identical report for every listing order and every order of the configured patterns".into(),
                                                observed: format!("listing {:?}, pattern orders {:?}/{:?}/{:?} renders differently", order.values().collect::<Vec<_>>(), po, pv, pq),
                                                size: tree.len(),
                                                unit_test: String::new(),
                                                extra: json!({"first": f0, "other": text}),
                                            });
                                        }
                                    }
                                }
                            }
                            (Err(e), _) => dl.violations.push(Violation { site: "directory:panic".into(), input: describe(tree), expected: "returns".into(), observed: e, size: 0, unit_test: String::new(), extra: json!({}) }),
                            (_, Err(e)) => dl.machinery.push(format!("report not readable: {}", e)),
                        }
                    }
                }
            }
        }
    }
    // ---- order of the configured patterns, all 30 patterns: on a directory of files in which every pattern has
    //      findings and many lines are findings of several patterns at once, every pair of patterns of a category
    //      in both orders, and the full list in its documented order, reversed, rotated by every offset and with
    //      every two positions exchanged; each rendering on a fresh thread; oracle = byte-identical part of the report
    {
        let root = dir.join("orders");
        let tree = vec![
            file("Amm.sol", crate::c15::BODY_A.as_bytes()),
            file("Bank.sol", crate::c15::BODY_B.as_bytes()),
            Entry::Dir { name: "lib".into(), children: vec![file("Core.sol", crate::c15::BODY_C.as_bytes()), file("Quoter.sol", crate::c15::BODY_E1.as_bytes())] },
            // a base contract and, in another file, a derived contract that writes the base's variables
            file("Base.sol", b"pragma solidity ^0.8.0;\ncontract Base {\n  uint256 public fee = 100;\n  address public owner;\n  constructor() { owner = msg.sender; }\n}\n"),
            file("Derived.sol", b"pragma solidity ^0.8.0;\nimport \"./Base.sol\";\ncontract Derived is Base {\n  function setFee(uint256 f) external payable { fee = f; }\n  function setOwner(address o) external payable { owner = o; }\n}\n"),
            // files that are not analysed, at every listing position
            file("Amm.t.sol", GARBAGE),
        ];
        materialise(&root, &tree);
        let r = root.to_str().unwrap().to_string();
        // all 30 patterns under EVERY listing order of this tree (5! x 2! orders)
        {
            let all_o = opt::get_all_optimizations();
            let all_v = vul::get_all_vulnerabilities();
            let all_q = qa::get_all_qa();
            let orders = all_orders(&root, &tree);
            let reps = util::par_map(orders.len(), |k| {
                let order = orders[k].clone();
                std::thread::scope(|sc| {
                    sc.spawn(|| {
                        solstat::verif_fs::set_order(order);
                        let rep = util::guarded(|| {
                            let mut rep = String::new();
                            rep.push_str(&solstat::report::vulnerability_report::generate_vulnerability_report(vul::analyze_dir(&r, all_v.clone())));
                            rep.push_str(&solstat::report::optimization_report::generate_optimization_report(opt::analyze_dir(&r, all_o.clone())));
                            rep.push_str(&solstat::report::qa_report::generate_qa_report(qa::analyze_dir(&r, all_q.clone())));
                            rep
                        });
                        solstat::verif_fs::clear_order();
                        rep
                    })
                    .join()
                    .unwrap()
                })
            });
            dl.states += orders.len() as u64;
            dl.transitions += 3 * orders.len() as u64;
            let first = reps.first().cloned();
            for (k, rep) in reps.iter().enumerate() {
                match (rep, &first) {
                    (Ok(a), Some(Ok(f0))) => {
                        reports_seen.insert(util::fnv(a));
                        if a != f0 {
                            dl.violations.push(Violation {
                                site: "directory:report-depends-on-listing-order:all-patterns".into(),
                                input: format!("tree {} listing {:?}", describe(&tree), orders[k].values().collect::<Vec<_>>()),
                                expected: "byte-identical rendering for every listing order".into(),
                                observed: format!("differs from the rendering under listing {:?}", orders[0].values().collect::<Vec<_>>()),
                                size: tree.len(),
                                unit_test: String::new(),
                                extra: json!({"first": f0, "other": a}),
                            });
                        }
                    }
                    (Err(e), _) => dl.violations.push(Violation { site: "directory:panic".into(), input: describe(&tree), expected: "returns".into(), observed: e.clone(), size: 0, unit_test: String::new(), extra: json!({}) }),
                    _ => {}
                }
            }
        }
        // many findings of one pattern in one file (more than a thousand), and a function with several memory parameters on
        // lines of their own: the same directory rendered six times (both listing orders, three times each, fresh threads,
        // hence fresh hash seeds) gives the same bytes; so does every other listing order
        {
            let root2 = dir.join("many");
            let many = format!(
                "pragma solidity 0.8.19;\ncontract Many {{\n  uint256 i;\n  function f(\n    bytes memory first,\n    string memory second,\n    uint256[] memory third\n  ) external returns (uint256) {{\n{}    return i;\n  }}\n}}\n",
                "    i++;\n".repeat(1001)
            );
            // ... plus nested divisions spread over lines (one finding inside another), and a value type declared in one file and
            // used by name in another (what one file declares must not decide another file's verdict, whichever is listed first)
            let many = many.replace("    return i;\n", &format!("{}    return i;\n", "    i = (\n      i / 3 * 5\n    ) * 7;\n".repeat(6)));
            let types = "pragma solidity 0.8.19;\ntype Price is uint128;\ntype Qty is uint64;\n";
            let book = "pragma solidity 0.8.19;\nimport \"./Types.sol\";\nstruct Order { Price bid; uint256 amount; Price ask; }\ncontract Book { Qty a; uint256 b; Qty c; }\n";
            let tree2 = vec![file("Many.sol", many.as_bytes()), file("D.sol", crate::c15::BODY_B.as_bytes()), file("Book.sol", book.as_bytes()), file("Types.sol", types.as_bytes())];
            materialise(&root2, &tree2);
            let r2 = root2.to_str().unwrap().to_string();
            let orders2 = all_orders(&root2, &tree2);
            let all_o = opt::get_all_optimizations();
            let all_v = vul::get_all_vulnerabilities();
            let all_q = qa::get_all_qa();
            let mut reps2: Vec<(usize, Result<String, String>)> = Vec::new();
            for round in 0..3 {
                for (k, order) in orders2.iter().enumerate() {
                    // every listing order once, the first two three times
                    if round > 0 && k >= 2 {
                        continue;
                    }
                    let (r2, order, all_o, all_v, all_q) = (r2.clone(), order.clone(), all_o.clone(), all_v.clone(), all_q.clone());
                    let rep = std::thread::spawn(move || {
                        solstat::verif_fs::set_order(order);
                        let rep = util::guarded(|| {
                            let mut rep = String::new();
                            rep.push_str(&solstat::report::vulnerability_report::generate_vulnerability_report(vul::analyze_dir(&r2, all_v)));
                            rep.push_str(&solstat::report::optimization_report::generate_optimization_report(opt::analyze_dir(&r2, all_o)));
                            rep.push_str(&solstat::report::qa_report::generate_qa_report(qa::analyze_dir(&r2, all_q)));
                            rep
                        });
                        solstat::verif_fs::clear_order();
                        rep
                    })
                    .join()
                    .unwrap_or_else(|_| Err("thread panicked".into()));
                    reps2.push((round * 10 + k, rep));
                }
            }
            dl.states += reps2.len() as u64;
            dl.transitions += 3 * reps2.len() as u64;
            let first = reps2.first().map(|x| x.1.clone());
            for (k, rep) in &reps2 {
                match (rep, &first) {
                    (Ok(a), Some(Ok(f0))) => {
                        reports_seen.insert(util::fnv(a));
                        if a != f0 {
                            dl.violations.push(Violation {
                                site: "directory:report-differs-between-repetitions:many-findings".into(),
                                input: format!("tree {} (1001 increments and three memory parameters in one file), rendering #{}", describe(&tree2), k),
                                expected: "byte-identical rendering every time".into(),
                                observed: "differs from the first rendering".into(),
                                size: 2,
                                unit_test: String::new(),
                                extra: json!({"first_len": f0.len(), "other_len": a.len()}),
                            });
                        }
                    }
                    (Err(e), _) => dl.violations.push(Violation { site: "directory:panic".into(), input: describe(&tree2), expected: "returns".into(), observed: e.clone(), size: 0, unit_test: String::new(), extra: json!({}) }),
                    _ => {}
                }
            }
        }
        fn orders_of(n: usize) -> Vec<Vec<usize>> {
            let id: Vec<usize> = (0..n).collect();
            let mut v = vec![id.clone(), id.iter().rev().cloned().collect()];
            for k in 1..n {
                v.push((0..n).map(|i| (i + k) % n).collect());
            }
            for a in 0..n {
                for b in (a + 1)..n {
                    let mut w = id.clone();
                    w.swap(a, b);
                    v.push(w);
                }
            }
            v
        }
        let mut check = |label: &str, n: usize, render: &(dyn Fn(&[usize]) -> Result<String, String> + Sync)| {
            // pairs in both orders
            let mut jobs: Vec<(Vec<usize>, Vec<usize>)> = Vec::new();
            for a in 0..n {
                for b in (a + 1)..n {
                    jobs.push((vec![a, b], vec![b, a]));
                }
            }
            let full = orders_of(n);
            for o in full.iter().skip(1) {
                jobs.push((full[0].clone(), o.clone()));
            }
            // a pattern named twice: wherever the repetition stands, the rendering is the same
            for a in 0..n {
                let b = (a + 1) % n;
                let c = (a + 2) % n;
                if a != b && b != c && a != c {
                    jobs.push((vec![a, a, b, c], vec![a, b, a, c]));
                    jobs.push((vec![a, a, b, c], vec![b, c, a, a]));
                    jobs.push((vec![a, b, a], vec![b, a, a]));
                }
            }
            let res = util::par_map(jobs.len(), |j| {
                let (x, y) = &jobs[j];
                let rx = std::thread::scope(|sc| sc.spawn(|| render(x)).join().unwrap());
                let ry = std::thread::scope(|sc| sc.spawn(|| render(y)).join().unwrap());
                (rx, ry)
            });
            for ((x, y), (rx, ry)) in jobs.iter().zip(res) {
                dl.states += 2;
                dl.transitions += 2;
                match (rx, ry) {
                    (Ok(a), Ok(b)) => {
                        reports_seen.insert(util::fnv(&a));
                        if a != b {
                            dl.violations.push(Violation {
                                site: format!("directory:{}-report-depends-on-pattern-order", label),
                                input: format!("tree {} patterns (indices into the documented order) {:?} versus {:?}", describe(&tree), x, y),
                                expected: "byte-identical rendering for both orders of the configured patterns".into(),
                                observed: "the two renderings differ".into(),
                                size: x.len(),
                                unit_test: String::new(),
                                extra: json!({"first": a, "other": b}),
                            });
                        }
                    }
                    (Err(e), _) | (_, Err(e)) => dl.violations.push(Violation { site: "directory:panic".into(), input: format!("patterns {:?} / {:?}", x, y), expected: "returns".into(), observed: e, size: 0, unit_test: String::new(), extra: json!({}) }),
                }
            }
        };
        let all_o = opt::get_all_optimizations();
        let all_v = vul::get_all_vulnerabilities();
        let all_q = qa::get_all_qa();
        check("optimization", all_o.len(), &|ix| util::guarded(|| solstat::report::optimization_report::generate_optimization_report(opt::analyze_dir(&r, ix.iter().map(|&i| all_o[i]).collect()))));
        check("vulnerability", all_v.len(), &|ix| util::guarded(|| solstat::report::vulnerability_report::generate_vulnerability_report(vul::analyze_dir(&r, ix.iter().map(|&i| all_v[i]).collect()))));
        check("qa", all_q.len(), &|ix| util::guarded(|| solstat::report::qa_report::generate_qa_report(qa::analyze_dir(&r, ix.iter().map(|&i| all_q[i]).collect()))));
    }
    dl.distinct_reports = reports_seen.len() as u64;
    // binary level (sampled): 3 runs on the same directory
    let bin = std::env::var("SOLSTAT_BIN").unwrap_or_default();
    if !bin.is_empty() && Path::new(&bin).exists() {
        let root = dir.join("t2");
        let mut outs: Vec<Vec<u8>> = Vec::new();
        for _ in 0..3 {
            let _ = std::fs::remove_file(cwd.join("solstat_report.md"));
            let o = std::process::Command::new(&bin).arg("--path").arg(&root).current_dir(&cwd).env_clear().env("PATH", "/usr/bin:/bin").output();
            if let Ok(o) = o {
                if crate::binx::completed(o.status.code()) {
                    if let Ok(b) = std::fs::read(cwd.join("solstat_report.md")) {
                        outs.push(b);
                        dl.binary_runs += 1;
                    }
                }
            }
        }
        if outs.len() == 3 && !(outs[0] == outs[1] && outs[1] == outs[2]) {
            dl.violations.push(Violation {
                site: "binary:two-runs-differ".into(),
                input: "three runs of the binary on the same directory".into(),
                expected: "byte-identical reports".into(),
                observed: "reports differ".into(),
                size: 1,
                unit_test: String::new(),
                extra: json!({}),
            });
        }
        if outs.len() != 3 {
            dl.machinery.push("binary-level re-runs did not all produce a report".into());
        }
    } else {
        dl.machinery.push("SOLSTAT_BIN (unhooked binary) not found".into());
    }
    if let Some(o) = old {
        let _ = std::env::set_current_dir(o);
    }
    let _ = std::fs::remove_dir_all(&dir);
    dl
}

// ======================================================================================= directory-level layouts

/// C02 (d) / C17: the same token-preserving re-layouts, but through `analyze_dir` (the path the
/// command-line program takes): a file is written under each layout and the lines reported for it
/// must be the lines of the tokens flagged on the one-token-per-line layout.
pub fn dir_layout_check(progs: &[crate::synth::Prog], property: &str) -> (Vec<Violation>, u64, u64) {
    use crate::layout;
    let detectors = crate::dets::all();
    let sel = Selection { opts: opt::get_all_optimizations(), vulns: vul::get_all_vulnerabilities(), qas: qa::get_all_qa() };
    let tb = crate::report::tables();
    let res = util::par_map(progs.len(), |pi| {
        let p = &progs[pi];
        let n = p.toks.len();
        let (l1, _) = crate::synth::render_l1(&p.toks);
        let mut flagged: Vec<(Pat, BTreeSet<usize>)> = Vec::new();
        for d in &detectors {
            if let Ok(ls) = crate::dets::run_guarded(d, &l1, 0) {
                if !ls.is_empty() && ls.iter().all(|&l| l >= 1 && (l as usize) <= n) {
                    let pat = match d.det {
                        crate::dets::Det::Opt(o) => pat_of_opt(&o),
                        crate::dets::Det::Vuln(v) => pat_of_vuln(&v),
                        crate::dets::Det::Qa(q) => pat_of_qa(&q),
                    };
                    flagged.push((pat, ls.iter().map(|&l| (l - 1) as usize).collect()));
                }
            }
        }
        let mut vs = Vec::new();
        let mut states = 0u64;
        let root = worker_root("dirlay");
        for lay in layout::uniform(n) {
            let (text, offs) = layout::render(&p.toks, &lay);
            let _ = std::fs::remove_dir_all(&root);
            std::fs::create_dir_all(root.join("one")).unwrap();
            std::fs::write(root.join("one").join("F.sol"), &text).unwrap();
            // a second file next to it (the same program, one token per line): what is read for one file must not reach
            // the lines of the other
            std::fs::write(root.join("one").join("G.sol"), &l1).unwrap();
            states += 1;
            let got = run_analyze_dir(&root, &sel);
            let mut want: Findings = BTreeMap::new();
            for (pat, toks) in &flagged {
                let mut both = vec![("F.sol".to_string(), toks.iter().map(|&t| layout::line_of(&text, offs[t])).collect::<BTreeSet<i32>>()), ("G.sol".to_string(), toks.iter().map(|&t| t as i32 + 1).collect::<BTreeSet<i32>>())];
                both.sort();
                want.insert(*pat, both);
            }
            // ... and on through the report: the entries read back from the three rendered parts are the lines of
            // the flagged tokens too (constructs that share a line in this layout are still all listed)
            {
                let r = root.to_str().unwrap().to_string();
                let rendered = util::guarded(|| {
                    let mut rep = String::new();
                    rep.push_str(&solstat::report::vulnerability_report::generate_vulnerability_report(vul::analyze_dir(&r, sel.vulns.clone())));
                    rep.push_str("\n\n");
                    rep.push_str(&solstat::report::optimization_report::generate_optimization_report(opt::analyze_dir(&r, sel.opts.clone())));
                    rep.push_str("\n\n");
                    rep.push_str(&solstat::report::qa_report::generate_qa_report(qa::analyze_dir(&r, sel.qas.clone())));
                    rep
                });
                let mut want_e: BTreeMap<Pat, Vec<(String, i64)>> = BTreeMap::new();
                for (k, v) in &want {
                    let e = want_e.entry(*k).or_default();
                    for (f, ls) in v {
                        for l in ls {
                            e.push((f.clone(), *l as i64));
                        }
                    }
                    e.sort();
                }
                let got_e = rendered.map(|rep| {
                    let mut g = crate::report::parse_report(&rep, &tb).entries;
                    for v in g.values_mut() {
                        for e in v.iter_mut() {
                            e.0 = base_name(&e.0);
                        }
                        v.sort();
                    }
                    g.retain(|_, v| !v.is_empty());
                    g
                });
                if got_e.as_ref().ok() != Some(&want_e) {
                    vs.push(Violation {
                        site: "report:entries-do-not-follow-layout".into(),
                        input: format!("{:?}", text),
                        expected: format!("the report lists, per pattern, the lines of the flagged tokens in this layout: {:?}", want_e),
                        observed: match &got_e {
                            Ok(g) => format!("{:?}", g),
                            Err(e) => format!("panic: {}", e),
                        },
                        size: text.len(),
                        unit_test: String::new(),
                        extra: json!({"layout": lay.label, "property": property}),
                    });
                }
            }
            if got.as_ref().ok() != Some(&want) {
                vs.push(Violation {
                    site: format!("analyze_dir:lines-do-not-follow-layout:{}", if text.starts_with(['\n', '\r', ' ', '\t']) { "leading-white-space" } else { "other" }),
                    input: format!("{:?}", text),
                    expected: "through analyze_dir, the lines reported for the file are the lines of the flagged tokens in this layout".into(),
                    observed: match &got {
                        Ok(g) => diff_findings(g, &want),
                        Err(e) => format!("panic: {}", e),
                    },
                    size: text.len(),
                    unit_test: String::new(),
                    extra: json!({"layout": lay.label, "property": property}),
                });
            }
        }
        let _ = std::fs::remove_dir_all(&root);
        (vs, states)
    });
    let mut vs = Vec::new();
    let mut states = 0u64;
    for (v, s) in res {
        vs.extend(v);
        states += s;
    }
    (vs, states, states * 3)
}

/// Directory level equals file level: each text is written as the only file of a directory and the
/// result of `analyze_dir` must equal the per-file results (used with spellings that a textual
/// shortcut in the directory walk could trip over).
pub fn dir_equals_file(texts: &[(String, String)], sel_names: (&[&str], &[&str], &[&str])) -> (Vec<Violation>, u64) {
    let sel = || Selection {
        opts: sel_names.0.iter().map(|n| opt::str_to_optimization(n)).collect(),
        vulns: sel_names.1.iter().map(|n| vul::str_to_vulnerability(n)).collect(),
        qas: sel_names.2.iter().map(|n| qa::str_to_qa(n)).collect(),
    };
    let res = util::par_map(texts.len(), |i| {
        let (label, text) = &texts[i];
        let root = worker_root("direq");
        let _ = std::fs::remove_dir_all(&root);
        let tree = vec![Entry::Dir { name: "src".into(), children: vec![file("Only.sol", text.as_bytes())] }];
        materialise(&root, &tree);
        let s = sel();
        let got = run_analyze_dir(&root, &s);
        let want = per_file_union(&tree, &s);
        let _ = std::fs::remove_dir_all(&root);
        if got != want {
            Some(Violation {
                site: "analyze_dir:differs-from-file-level".into(),
                input: format!("{}: {:?}", label, text),
                expected: "the directory result for the file equals analysing the file on its own".into(),
                observed: match (&got, &want) {
                    (Ok(g), Ok(w)) => diff_findings(g, w),
                    _ => format!("{:?} vs {:?}", got.is_ok(), want.is_ok()),
                },
                size: text.len(),
                unit_test: String::new(),
                extra: json!({}),
            })
        } else {
            None
        }
    });
    let mut n = res.len() as u64;
    let mut out: Vec<Violation> = res.into_iter().flatten().collect();
    // ... and all of them in ONE tree: at the top, in two sibling sub-directories and below one of them, under four listing
    // orders (what a sub-directory reports must be added to what was collected before it, pattern by pattern)
    if texts.len() > 1 {
        let mut top: Vec<Entry> = Vec::new();
        let (mut a, mut b, mut deep): (Vec<Entry>, Vec<Entry>, Vec<Entry>) = (Vec::new(), Vec::new(), Vec::new());
        for (i, (_, text)) in texts.iter().enumerate().take(64) {
            let f = file(&format!("T{:02}.sol", i), text.as_bytes());
            match i % 4 {
                0 => top.push(f),
                1 => a.push(f),
                2 => b.push(f),
                _ => deep.push(f),
            }
        }
        a.push(Entry::Dir { name: "deep".into(), children: deep });
        top.insert(top.len() / 2, Entry::Dir { name: "a".into(), children: a });
        top.push(Entry::Dir { name: "b".into(), children: b });
        let root = worker_root("direq-all");
        let _ = std::fs::remove_dir_all(&root);
        materialise(&root, &top);
        let s = sel();
        let want = per_file_union(&top, &s);
        for order in all_orders(&root, &top) {
            n += 1;
            solstat::verif_fs::set_order(order.clone());
            let got = run_analyze_dir(&root, &s);
            solstat::verif_fs::clear_order();
            if got != want {
                out.push(Violation {
                    site: "analyze_dir:tree-differs-from-file-level".into(),
                    input: format!("tree {} listing {:?}", describe(&top).chars().take(300).collect::<String>(), order.values().map(|v| v.len()).collect::<Vec<_>>()),
                    expected: "the directory result equals the union of the per-file results".into(),
                    observed: match (&got, &want) {
                        (Ok(g), Ok(w)) => diff_findings(g, w).chars().take(600).collect(),
                        _ => format!("{:?} vs {:?}", got.is_ok(), want.is_ok()),
                    },
                    size: 100_000,
                    unit_test: String::new(),
                    extra: json!({}),
                });
                break;
            }
        }
        let _ = std::fs::remove_dir_all(&root);
    }
    (out, n)
}
