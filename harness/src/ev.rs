//! Evidence files, violation artefacts and the known-findings protocol (DESIGN.md 3.3–3.5, 11).

use serde_json::{json, Map, Value};
use std::collections::BTreeMap;
use std::time::Instant;

pub fn verif_home() -> String {
    std::env::var("VERIF_HOME").unwrap_or_else(|_| "/verif".to_string())
}
pub fn repo_home() -> String {
    std::env::var("SOLSTAT_REPO").unwrap_or_else(|_| "/repo".to_string())
}

#[derive(Clone, Debug)]
pub struct Violation {
    /// fine-grained cause key (detector + construct kind, call site, …): the unit of de-duplication
    /// and of known-finding matching
    pub site: String,
    /// minimal input exhibiting it (token sequence / tree / map / history), human readable
    pub input: String,
    pub expected: String,
    pub observed: String,
    /// size used to keep the smallest witness per site
    pub size: usize,
    /// a plain #[test] reproducing the observation without the harness (may be empty)
    pub unit_test: String,
    pub extra: Value,
}

pub struct Run {
    pub property: String,
    pub tier: String,
    pub seed: i64,
    pub t0: Instant,
    pub cov: Map<String, Value>,
    pub assumptions: Vec<String>,
    /// smallest witness per site, plus number of occurrences
    pub violations: BTreeMap<String, (Violation, usize)>,
    pub machinery_errors: Vec<String>,
}

impl Run {
    pub fn new(property: &str, tier: &str) -> Run {
        let seed = std::env::var("VERIF_SEED").ok().and_then(|s| s.parse::<i64>().ok()).unwrap_or(0);
        Run {
            property: property.to_string(),
            tier: tier.to_string(),
            seed,
            t0: Instant::now(),
            cov: Map::new(),
            assumptions: Vec::new(),
            violations: BTreeMap::new(),
            machinery_errors: Vec::new(),
        }
    }

    pub fn set<V: Into<Value>>(&mut self, k: &str, v: V) {
        self.cov.insert(k.to_string(), v.into());
    }
    pub fn add(&mut self, k: &str, n: u64) {
        let cur = self.cov.get(k).and_then(|v| v.as_u64()).unwrap_or(0);
        self.cov.insert(k.to_string(), json!(cur + n));
    }
    pub fn assume(&mut self, s: &str) {
        if !self.assumptions.iter().any(|a| a == s) {
            self.assumptions.push(s.to_string());
        }
    }
    pub fn machinery(&mut self, s: String) {
        if self.machinery_errors.len() < 50 {
            self.machinery_errors.push(s);
        }
    }

    pub fn violation(&mut self, v: Violation) {
        let k = v.extra.get("merged_occurrences").and_then(|x| x.as_u64()).unwrap_or(1) as usize;
        match self.violations.get_mut(&v.site) {
            Some((old, n)) => {
                *n += k;
                if v.size < old.size {
                    *old = v;
                }
            }
            None => {
                self.violations.insert(v.site.clone(), (v, k));
            }
        }
    }

    pub fn merge_violations(&mut self, vs: Vec<Violation>) {
        for v in vs {
            self.violation(v);
        }
    }

    /// Write evidence, print KNOWN-FINDING / VIOLATION lines, return the process exit code.
    pub fn finish(mut self) -> i32 {
        let known = load_known();
        let mut unlisted = 0usize;
        let mut lines: Vec<String> = Vec::new();
        let mut known_hits = Vec::new();
        for (site, (v, n)) in &self.violations {
            let listed = known.iter().any(|k| k.status == "open" && k.property == self.property && k.site == *site);
            if listed {
                lines.push(format!("KNOWN-FINDING: property={} {} (site {}; {} occurrences)", self.property, one_line(&v.observed), site, n));
                known_hits.push(site.clone());
            } else {
                unlisted += 1;
                let path = write_replay(&self.property, v, *n);
                lines.push(format!("VIOLATION property={} replay={}", self.property, path));
                eprintln!(
                    "  site={} occurrences={}\n    input: {}\n    expected: {}\n    observed: {}",
                    site,
                    n,
                    one_line(&v.input),
                    one_line(&v.expected),
                    one_line(&v.observed)
                );
            }
        }
        for l in &lines {
            println!("{}", l);
        }
        for m in &self.machinery_errors {
            eprintln!("MACHINERY: {}", m);
        }
        let wall = self.t0.elapsed().as_secs_f64();
        self.cov.entry("exhaustive".to_string()).or_insert(json!(true));
        self.cov.insert("known_findings_reobserved".to_string(), json!(known_hits));
        self.cov.insert("machinery_errors".to_string(), json!(self.machinery_errors));
        let evidence = json!({
            "property_id": self.property,
            "tier": self.tier,
            "seed": self.seed,
            "level": "model_checking",
            "coverage": Value::Object(self.cov.clone()),
            "assumptions": self.assumptions,
            "wall_s": (wall * 1000.0).round() / 1000.0,
            "violations": unlisted,
        });
        let dir = format!("{}/evidence", verif_home());
        let _ = std::fs::create_dir_all(&dir);
        let path = format!("{}/{}.json", dir, self.property);
        if let Err(e) = std::fs::write(&path, serde_json::to_string_pretty(&evidence).unwrap() + "\n") {
            eprintln!("MACHINERY: cannot write evidence {}: {}", path, e);
            return 2;
        }
        eprintln!(
            "[{} {}] wall={:.1}s states={} transitions={} violations(unlisted)={} known={} machinery_errors={}",
            self.property,
            self.tier,
            wall,
            self.cov.get("states").map(|v| v.to_string()).unwrap_or_default(),
            self.cov.get("transitions").map(|v| v.to_string()).unwrap_or_default(),
            unlisted,
            known_hits.len(),
            self.machinery_errors.len()
        );
        // a violation with its replayable witness stands even if a self-check of the machinery failed as well (on a
        // changed tree the latter is usually a consequence of the former); without a violation a failed self-check is
        // a machinery exit, never a verdict
        if unlisted > 0 {
            1
        } else if !self.machinery_errors.is_empty() {
            2
        } else {
            0
        }
    }
}

pub fn one_line(s: &str) -> String {
    let t: String = s.chars().map(|c| if c == '\n' { '⏎' } else { c }).collect();
    if t.chars().count() > 400 {
        t.chars().take(400).collect::<String>() + "…"
    } else {
        t
    }
}

pub struct Known {
    pub status: String,
    pub property: String,
    pub site: String,
}

pub fn load_known() -> Vec<Known> {
    let path = format!("{}/known_findings.json", verif_home());
    let txt = match std::fs::read_to_string(&path) {
        Ok(t) => t,
        Err(_) => return Vec::new(),
    };
    let v: Value = match serde_json::from_str(&txt) {
        Ok(v) => v,
        Err(e) => {
            eprintln!("MACHINERY: known_findings.json does not parse: {}", e);
            return Vec::new();
        }
    };
    let mut out = Vec::new();
    if let Some(arr) = v.get("findings").and_then(|a| a.as_array()) {
        for k in arr {
            out.push(Known {
                status: k.get("status").and_then(|s| s.as_str()).unwrap_or("").to_string(),
                property: k.get("property").and_then(|s| s.as_str()).unwrap_or("").to_string(),
                site: k.get("site").and_then(|s| s.as_str()).unwrap_or("").to_string(),
            });
        }
    }
    out
}

fn write_replay(property: &str, v: &Violation, occurrences: usize) -> String {
    let dir = format!("{}/replays", verif_home());
    let _ = std::fs::create_dir_all(&dir);
    let h = crate::util::fnv(&format!("{}|{}", v.site, v.input));
    let path = format!("{}/{}-{:016x}.json", dir, property, h);
    let doc = json!({
        "property": property,
        "site": v.site,
        "input": v.input,
        "expected": v.expected,
        "observed": v.observed,
        "occurrences_in_run": occurrences,
        "unit_test": v.unit_test,
        "extra": v.extra,
    });
    let _ = std::fs::write(&path, serde_json::to_string_pretty(&doc).unwrap() + "\n");
    path
}
