//! C17 — findings are invariant under re-layout and commenting (DESIGN.md section 7, C17).
//!
//! T_d = tokens flagged by detector d on the canonical one-token-per-line layout L1.  In every
//! other layout ℓ the reported line set must equal { line_ℓ(t) : t ∈ T_d }, lines being computed
//! by the harness from the text it printed.

use crate::corpus::{self, Tier};
use crate::dets::{self, Detector};
use crate::ev::{Run, Violation};
use crate::layout::{self, Layout};
use crate::synth;
use crate::util;
use serde_json::json;
use std::collections::{BTreeSet, HashSet};

struct Out {
    violations: Vec<Violation>,
    layouts: u64,
    calls: u64,
    flagged_sets: Vec<u64>,
    parsed_ok: u64,
}

fn check(p: &synth::Prog, detectors: &[Detector], tier: Tier) -> Out {
    let mut out = Out { violations: Vec::new(), layouts: 0, calls: 0, flagged_sets: Vec::new(), parsed_ok: 0 };
    let (l1, _) = synth::render_l1(&p.toks);
    let n = p.toks.len();
    // flagged tokens per detector on L1
    let mut flagged: Vec<Option<BTreeSet<usize>>> = Vec::new();
    for d in detectors {
        out.calls += 1;
        match dets::run_guarded(d, &l1, 0) {
            Ok(lines) => {
                if lines.iter().any(|&l| l < 1 || l as usize > n) {
                    // a line that is not a token line on L1: C02's business; skip this detector here
                    flagged.push(None);
                } else {
                    let s: BTreeSet<usize> = lines.iter().map(|&l| (l - 1) as usize).collect();
                    out.flagged_sets.push(util::fnv(&format!("{}:{:?}", d.name, s)));
                    flagged.push(Some(s));
                }
            }
            Err(_) => flagged.push(None), // panics are C04's business
        }
    }
    let mut layouts: Vec<(Layout, bool)> = layout::uniform(n).into_iter().map(|l| (l, true)).collect();
    layouts.extend(layout::single_deviations(n).into_iter().map(|l| (l, false)));
    if tier == Tier::Thorough && n <= 25 {
        layouts.extend(layout::double_deviations(n).into_iter().map(|l| (l, false)));
    }
    for (lay, all_dets) in &layouts {
        let (text, offs) = layout::render(&p.toks, lay);
        out.layouts += 1;
        // token preservation is a precondition: the re-layout must still parse (machinery check)
        if solang_parser::parse(&text, 0).is_err() {
            out.violations.push(Violation {
                site: "MACHINERY:layout-does-not-parse".into(),
                input: text.clone(),
                expected: "parses".into(),
                observed: lay.label.clone(),
                size: n,
                unit_test: String::new(),
                extra: json!({}),
            });
            continue;
        }
        out.parsed_ok += 1;
        for (di, d) in detectors.iter().enumerate() {
            let f = match &flagged[di] {
                Some(f) => f,
                None => continue,
            };
            if f.is_empty() && !all_dets {
                continue;
            }
            let want: BTreeSet<i32> = f.iter().map(|&t| layout::line_of(&text, offs[t])).collect();
            out.calls += 1;
            let got = dets::run_guarded(d, &text, 0);
            let ok = match &got {
                Ok(g) => *g == want,
                Err(_) => false,
            };
            if !ok {
                let kind = match &got {
                    Err(_) => "panic",
                    Ok(g) if g.len() > want.len() => "extra",
                    Ok(g) if g.len() < want.len() => "lost",
                    Ok(_) => "moved",
                };
                out.violations.push(Violation {
                    site: format!("{}:{}", d.name, kind),
                    input: text.clone(),
                    expected: format!("lines {:?} (flagged tokens {:?} of the one-token-per-line layout, moved with the layout '{}')", want, f, lay.label),
                    observed: format!("{:?}", got),
                    size: n * 1000 + text.len().min(999),
                    unit_test: dets::unit_test_for(d, &text, &format!("expected lines {:?}", want)),
                    extra: json!({"tag": p.tag, "layout": lay.label, "tokens": p.toks}),
                });
            }
        }
    }
    // "code-like text inside string literals never produces a finding of its own": the same tokens with the CONTENT of every plain
    // string literal replaced by x's of the same byte length flag the same tokens
    if p.toks.iter().any(|t| t.len() > 2 && t.starts_with('"') && t.ends_with('"')) {
        let blanked: Vec<String> = p.toks.iter().map(|t| if t.len() > 2 && t.starts_with('"') && t.ends_with('"') { format!("\"{}\"", "x".repeat(t.len() - 2)) } else { t.clone() }).collect();
        let (bt, _) = synth::render_l1(&blanked);
        if solang_parser::parse(&bt, 0).is_ok() {
            out.layouts += 1;
            out.parsed_ok += 1;
            for (di, d) in detectors.iter().enumerate() {
                let f = match &flagged[di] {
                    Some(f) => f,
                    None => continue,
                };
                let want: BTreeSet<i32> = f.iter().map(|&t| (t + 1) as i32).collect();
                out.calls += 1;
                let got = dets::run_guarded(d, &bt, 0);
                if got.as_ref().ok() != Some(&want) {
                    out.violations.push(Violation {
                        site: format!("{}:finding-depends-on-the-text-of-a-string-literal", d.name),
                        input: bt.clone(),
                        expected: format!("lines {:?}, as with the original string contents ({})", want, p.toks.iter().filter(|t| t.starts_with('"')).cloned().collect::<Vec<_>>().join(" ")),
                        observed: format!("{:?}", got),
                        size: n * 1000 + 500,
                        unit_test: String::new(),
                        extra: json!({"tag": p.tag, "tokens": p.toks}),
                    });
                }
            }
        }
    }
    // layouts that are extreme in one respect (only for detectors that flag something in this program): a first line of 66 000
    // blanks, a first line that is a 70 000-byte comment, a comment line holding NEL / LINE SEPARATOR / PARAGRAPH SEPARATOR / a lone
    // CR, and a vertical tab or form feed directly after every line feed that follows the first `;` (the lexer reads a pragma's
    // value as raw text)
    if flagged.iter().any(|f| f.as_ref().map(|s| !s.is_empty()).unwrap_or(false)) {
        let (l1t, l1o) = synth::render_l1(&p.toks);
        let mut variants: Vec<(String, String, Vec<usize>)> = Vec::new();
        for (label, prefix) in [
            ("66000 blanks on the first line", format!("{}\n", " ".repeat(66_000))),
            ("a 70000-byte comment on the first line", format!("/* {} */\n", "x".repeat(70_000))),
            ("a comment with NEL, LS, PS and a lone CR on the first line", "/* \u{85} \u{2028} \u{2029} \r */\n".to_string()),
        ] {
            variants.push((label.to_string(), format!("{}{}", prefix, l1t), l1o.iter().map(|o| o + prefix.len()).collect()));
        }
        for (label, ws) in [("a vertical tab after every line feed", "\u{b}"), ("a form feed after every line feed", "\u{c}")] {
            let mut text = String::new();
            let mut offs = Vec::new();
            let mut past_directive = p.toks.first().map(|t| t != "pragma" && t != "import").unwrap_or(true);
            for tk in &p.toks {
                if past_directive {
                    text.push_str(ws);
                }
                offs.push(text.len());
                text.push_str(tk);
                text.push('\n');
                if tk == ";" || tk == "}" {
                    past_directive = true;
                }
                if tk == "pragma" || tk == "import" {
                    past_directive = false;
                }
            }
            variants.push((label.to_string(), text, offs));
        }
        for (label, text, offs) in variants {
            out.layouts += 1;
            if solang_parser::parse(&text, 0).is_err() {
                out.violations.push(Violation { site: "MACHINERY:layout-does-not-parse".into(), input: text.chars().take(300).collect(), expected: "parses".into(), observed: label.clone(), size: n, unit_test: String::new(), extra: json!({}) });
                continue;
            }
            out.parsed_ok += 1;
            for (di, d) in detectors.iter().enumerate() {
                let f = match &flagged[di] {
                    Some(f) if !f.is_empty() => f,
                    _ => continue,
                };
                let want: BTreeSet<i32> = f.iter().map(|&t| layout::line_of(&text, offs[t])).collect();
                out.calls += 1;
                let got = dets::run_guarded(d, &text, 0);
                if got.as_ref().ok() != Some(&want) {
                    out.violations.push(Violation {
                        site: format!("{}:extreme-layout", d.name),
                        input: format!("[{}] {}", label, text.chars().filter(|c| *c != 'x' && *c != ' ').take(400).collect::<String>()),
                        expected: format!("lines {:?} (flagged tokens {:?} of the one-token-per-line layout, moved with the layout '{}')", want, f, label),
                        observed: format!("{:?}", got),
                        size: n * 1000 + 999,
                        unit_test: String::new(),
                        extra: json!({"tag": p.tag, "layout": label, "tokens": p.toks}),
                    });
                }
            }
        }
    }
    out
}

pub fn run(tier: Tier) -> i32 {
    util::quiet();
    let mut run = Run::new("C17", if tier == Tier::Quick { "quick" } else { "thorough" });
    let detectors = dets::all();
    if detectors.len() != 30 {
        run.machinery(format!("expected 30 detectors addressable by documented name, got {}", detectors.len()));
    }
    let mut c = corpus::build_small();
    if tier == Tier::Thorough {
        // add Σ_B(2) programs thinned to those with a finding for some detector
        let big = corpus::build(Tier::Quick);
        let keep = util::par_map(big.progs.len(), |i| {
            let p = &big.progs[i];
            if !(p.tag.starts_with("B2") || p.tag.starts_with("A1s")) || i % 4 != 0 {
                return false;
            }
            let (l1, _) = synth::render_l1(&p.toks);
            detectors.iter().filter(|d| !["solidity_math", "payable_function"].contains(&d.name)).any(|d| dets::run_guarded(d, &l1, 0).map(|s| !s.is_empty()).unwrap_or(false))
        });
        let mut i = 0;
        for p in big.progs {
            if keep[i] {
                c.progs.push(p);
            }
            i += 1;
        }
    }
    let n = c.progs.len();
    let res = util::par_map(n, |i| check(&c.progs[i], &detectors, tier));
    let mut layouts = 0u64;
    let mut calls = 0u64;
    let mut parsed = 0u64;
    let mut sets: HashSet<u64> = HashSet::new();
    for o in &res {
        layouts += o.layouts;
        calls += o.calls;
        parsed += o.parsed_ok;
        for s in &o.flagged_sets {
            sets.insert(*s);
        }
    }
    for o in res {
        for v in o.violations {
            if v.site.starts_with("MACHINERY:") {
                run.machinery(format!("re-layout '{}' of a generated program does not parse: {}", v.observed, crate::ev::one_line(&v.input)));
            } else {
                run.violation(v);
            }
        }
    }
    // the same invariance through analyze_dir (the path of the command-line program)
    let pool: Vec<crate::synth::Prog> = corpus::build_small().progs.into_iter().filter(|p| p.tag.starts_with("S.pool") || p.tag.contains("atom.")).collect();
    let (dvs, dstates, dcalls) = crate::fsx::dir_layout_check(&pool, "C17");
    run.merge_violations(dvs);
    layouts += dstates;
    calls += dcalls;
    run.set("directory_level_layout_states", dstates);
    run.set("states", layouts);
    run.set("transitions", calls);
    run.set("traces_validated_against_impl", parsed);
    run.set("evaluations", calls);
    run.set("distinct_nontrivial", sets.len() as u64);
    run.set("programs", n as u64);
    run.set("rule", "states = (program, layout) pairs: 27 uniform layouts + 3 tight + all single-gap deviations (8 separators x every gap); thorough adds all gap pairs on programs of <= 25 tokens; non-trivial = distinct (detector, flagged-token set) on the canonical layout; every layout is re-parsed (token preservation) before it is used");
    run.set("bound_completed", if tier == Tier::Quick { "deviation 1 on Σ_small" } else { "deviation 2 on programs of <= 25 tokens, deviation 1 on Σ_small + thinned Σ_B(2)/Σ_A(1)" });
    run.set(
        "samples",
        json!(c.progs.iter().step_by((n / 3).max(1)).take(3).map(|p| {
            let l = &layout::single_deviations(p.toks.len())[5];
            json!({"tag": p.tag, "layout": l.label, "text": layout::render(&p.toks, l).0})
        }).collect::<Vec<_>>()),
    );
    run.assume("comments are not placed inside a pragma directive (the lexer reads the value as raw text up to ';')");
    run.finish()
}
