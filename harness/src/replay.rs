//! `./check replay <file>`: re-execute a recorded violation on the current tree, twice, and print
//! both observations (DESIGN.md 3.5).  Cases that are a single call on a text are re-executed
//! directly; environment / history cases are re-explored through their property's quick check.

use crate::corpus::Tier;
use crate::dets;
use crate::rtree::RTree;
use crate::util;
use serde_json::Value;

pub fn run(path: &str) -> i32 {
    util::quiet();
    let txt = match std::fs::read_to_string(path) {
        Ok(t) => t,
        Err(e) => {
            eprintln!("cannot read {}: {}", path, e);
            return 2;
        }
    };
    let v: Value = match serde_json::from_str(&txt) {
        Ok(v) => v,
        Err(e) => {
            eprintln!("not a replay artefact: {}", e);
            return 2;
        }
    };
    let property = v["property"].as_str().unwrap_or("").to_string();
    let site = v["site"].as_str().unwrap_or("").to_string();
    let input = v["input"].as_str().unwrap_or("").to_string();
    println!("property {} site {}", property, site);
    println!("recorded expectation: {}", v["expected"].as_str().unwrap_or(""));
    println!("recorded observation: {}", v["observed"].as_str().unwrap_or(""));
    // C01: a program on the one-token-per-line layout
    if let Some(l1) = v["extra"]["l1"].as_str() {
        for round in 1..=2 {
            match solang_parser::parse(l1, 0) {
                Ok((su, _)) => {
                    let t = RTree::convert(&su);
                    let expected = (0..t.nodes.len()).filter(|&i| t.is_real(i)).count();
                    let all: std::collections::HashSet<_> = crate::c01::target_table().into_iter().map(|x| x.1).collect();
                    let got = util::guarded(|| solstat::analyzer::ast::walk_node_for_targets(&all, solstat::analyzer::ast::Node::SourceUnit(su.clone())).len());
                    println!("run {}: reference traversal has {} nodes, walk_node_for_targets(all targets, file) returned {:?}", round, expected, got);
                }
                Err(_) => println!("run {}: the recorded program no longer parses", round),
            }
        }
        return 0;
    }
    // a detector on a text
    let det_name = site.split(':').next().unwrap_or("");
    if let Some(d) = dets::all().into_iter().find(|d| d.name == det_name) {
        let candidates = [input.clone(), input.replace('⏎', "\n")];
        for text in candidates.iter() {
            if solang_parser::parse(text, 0).is_ok() {
                for round in 1..=2 {
                    println!("run {}: {}({:?}…) = {:?}", round, d.name, text.chars().take(60).collect::<String>(), dets::run_guarded(&d, text, 0));
                }
                return 0;
            }
        }
    }
    if site.starts_with("get_line_number") {
        // input has the form "<debug string>" offset N
        if let Some(pos) = input.rfind(" offset ") {
            let off: usize = input[pos + 8..].trim().parse().unwrap_or(0);
            if let Ok(text) = serde_json::from_str::<String>(&input[..pos]) {
                for round in 1..=2 {
                    println!("run {}: get_line_number({}, {:?}) = {:?}", round, off, text, util::guarded(|| solstat::analyzer::utils::get_line_number(off, &text)));
                }
                return 0;
            }
        }
    }
    println!("this artefact records an environment / history case; re-exploring the space of {} (quick tier) twice:", property);
    for round in 1..=2 {
        let me = std::env::current_exe().unwrap();
        let out = std::process::Command::new(&me).args([property.as_str(), "quick"]).output();
        match out {
            Ok(o) => {
                let so = String::from_utf8_lossy(&o.stdout);
                let se = String::from_utf8_lossy(&o.stderr);
                let still = se.lines().any(|l| l.contains(&format!("site={}", site)));
                println!("run {}: exit {:?}; the recorded site {} observed again; {} VIOLATION line(s)", round, o.status.code(), if still { "IS" } else { "is NOT" }, so.lines().filter(|l| l.starts_with("VIOLATION")).count());
            }
            Err(e) => println!("run {}: cannot re-run: {}", round, e),
        }
    }
    let _ = Tier::Quick;
    0
}
