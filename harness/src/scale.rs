//! Inputs that are large or extreme in ONE dimension (DESIGN 15.5, round 9): the small-scope enumerations of the
//! checks are exhaustive over short programs, so a defect with a threshold — a narrowing cast, a fixed-width
//! counter, a cap, a remainder slip in a chunked loop — lies beyond them by construction.  Each family below fixes
//! everything except one quantity and puts that quantity on both sides of the usual thresholds
//! (255 / 256 / 257, 1000 / 1001, 65535 / 65536 / 65537).
//!
//! All texts are in the one-token-per-line layout, possibly below a prefix, so that the reference detectors and the
//! conformance check of the sweeps apply to them unchanged.

use crate::synth::render_l1;

pub type Item = (String, String, Vec<usize>);

fn toks(s: &str) -> Vec<String> {
    s.split(' ').filter(|x| !x.is_empty()).map(|x| x.replace('~', " ")).collect()
}

fn item(label: &str, t: &[String]) -> Item {
    let (text, offs) = render_l1(t);
    (label.to_string(), text, offs)
}

/// the same item below a prefix (which must end a line if the item's first token is to start one)
pub fn below(prefix: &str, it: &Item, tag: &str) -> Item {
    (format!("{}:{}", it.0, tag), format!("{}{}", prefix, it.1), it.2.iter().map(|o| o + prefix.len()).collect())
}

/// one statement group that instances many patterns (each on a line of its own in this layout)
const GROUP: &str = "i ++ ; IERC20 ( u ) . transfer ( u , a * 2 ) ; require ( a > 0 && b , \"a~revert~string~that~is~longer~than~thirty-two~bytes\" ) ; if ( b == true ) { } if ( u == address ( 0 ) ) { } s = a ; arr [ 0 ] = arr [ 0 ] + a ; a = a / 2 * 3 ; h = keccak256 ( abi . encode ( a ) ) ; b = a >= 1 ;";

fn contract_with_groups(name: &str, n: usize, group: &str) -> Vec<String> {
    let mut t = toks(&format!("pragma solidity 0.8.19 ; contract {} {{ uint256 s ; uint256 [ ] arr ; bytes32 h ; uint256 i ; function f ( uint256 a , bool b , address u ) public {{", name));
    let g = toks(group);
    for _ in 0..n {
        t.extend(g.iter().cloned());
    }
    t.extend(toks("} }"));
    t
}

/// findings per pattern and file on both sides of 256 and 1000; line numbers and byte offsets beyond 16 bits; one very long
/// line; line-separator look-alikes
pub fn line_items(thorough: bool) -> Vec<Item> {
    let mut v = Vec::new();
    let small = item("scale:groups-2", &contract_with_groups("Few", 2, GROUP));
    // (1) >= 256 findings of many patterns in one file, every one at column 0
    for n in if thorough { vec![255usize, 256, 257, 300] } else { vec![257] } {
        v.push(item(&format!("scale:groups-{}", n), &contract_with_groups("Many", n, GROUP)));
    }
    // (2) > 1000 findings of one pattern (short statements keep the text small)
    for n in if thorough { vec![999usize, 1000, 1001, 4097] } else { vec![1001] } {
        v.push(item(&format!("scale:increments-{}", n), &contract_with_groups("Inc", n, "i ++ ;")));
    }
    // (3) line numbers beyond 65536: the small contract below 70 000 empty lines
    v.push(below(&"\n".repeat(70_000), &small, "below-70000-empty-lines"));
    // (4) one line of more than 65536 bytes (a comment kept on one line, a run of blanks) above the contract
    v.push(below(&format!("/* {} */\n", "x".repeat(70_000)), &small, "below-a-70000-byte-comment-line"));
    v.push(below(&format!("{}\n", " ".repeat(66_000)), &small, "below-a-66000-blank-line"));
    // (5) a file of more than 64 KiB with constructs before and after the filler (byte offsets beyond 16 bits)
    {
        let mut t = contract_with_groups("Head", 1, GROUP);
        let filler = format!("/*{}*/", "~filler~line\n".repeat(6000).replace('~', " "));
        t.push(filler);
        t.extend(contract_with_groups("Tail", 1, GROUP).into_iter().skip(4));
        // the filler token holds line feeds of its own: render by hand
        let mut text = String::new();
        let mut offs = Vec::new();
        for tk in &t {
            offs.push(text.len());
            text.push_str(tk);
            text.push('\n');
        }
        v.push(("scale:two-contracts-around-78KB-of-comment".to_string(), text, offs));
    }
    // (8) chains of 300 (70 in the quick tier): else-if branches, terms of a sum, nested calls, nested blocks (a counter of the
    //     nesting depth that is narrower than the depth)
    for n in if thorough { vec![70usize, 254, 255, 256, 300] } else { vec![70, 300] } {
        let mut t = toks("pragma solidity 0.8.19 ; contract Deep { function f ( uint256 a , bool b , address u ) public returns ( uint256 ) {");
        for k in 0..n {
            t.extend(toks(&format!("{} ( a >= {} ) {{ a = a * 2 ; }}", if k == 0 { "if" } else { "else if" }, k + 1)));
        }
        t.extend(toks("uint256 s = a * 2"));
        for _ in 0..n {
            t.extend(toks("+ a * 2"));
        }
        t.extend(toks("; return s ; } }"));
        v.push(item(&format!("scale:else-if-chain-and-sum-of-{}", n), &t));
    }
    // (6) characters that look like line ends but are not line feeds, inside a comment above the contract:
    //     NEL, LINE SEPARATOR, PARAGRAPH SEPARATOR, vertical tab, form feed, lone CR
    v.push(below("/* \u{85} \u{2028} \u{2029} \u{b} \u{c} \r */\n", &small, "below-a-comment-with-NEL-LS-PS-VT-FF-CR"));
    // (7) a vertical tab / form feed directly after every line feed (white space for the lexer)
    for (nm, ws) in [("vertical-tab", "\u{b}"), ("form-feed", "\u{c}")] {
        let t = contract_with_groups("Few", 2, GROUP);
        let mut text = String::new();
        let mut offs = Vec::new();
        for tk in &t {
            text.push_str(ws);
            offs.push(text.len());
            text.push_str(tk);
            text.push('\n');
        }
        v.push((format!("scale:{}-after-every-line-feed", nm), text, offs));
    }
    v
}

/// counts of members / statements / arguments / parts on both sides of 64 / 65, 255 / 256 / 257 (tree-shaped, for the walker
/// and the declaration-level detectors)
pub fn width_items(thorough: bool) -> Vec<Item> {
    width_toks(thorough).iter().map(|(l, t)| item(l, t)).collect()
}

/// constructs whose SHAPE the small generators fix to one spelling: literal spellings and lengths, try statements with and
/// without a returns clause, identifiers that begin with a non-ASCII letter or `$`, a modifier that is not declared in the file
pub fn shape_toks() -> Vec<(String, Vec<String>)> {
    let mut v = Vec::new();
    let lits = [
        "0x0000000000000000000000000000000000000001",
        "0x00000000000000000000000000000000000000",
        "0x000000000000000000000000000000000000000001",
        "0x0000_0000_0000_0000_0000_0000_0000_0000_0000_0001",
        "0x0000000000000000000000000000000000000000000000000000000000000001",
        "0xdeadbeef",
        "0x0",
        "1_000_000",
        "1e18",
        "1.5e3",
        ".5",
        "00",
        "115792089237316195423570985008687907853269984665640564039457584007913129639935",
        "hex\"00\"",
        "hex\"0011_2233\"",
        "hex\"0000000000000000000000000000000000000000000000000000000000000000\"",
        "unicode\"\u{e9}\"",
        "\"\"",
        "true",
        "1~ether",
        "2~days",
    ];
    for l in lits {
        v.push((format!("scale:literal-{}", l.replace('~', "-")), toks(&format!("pragma solidity 0.8.19 ; contract Lit {{ bytes32 w ; constructor ( ) {{ w = {} ; }} function f ( address a ) public payable returns ( bool ) {{ x = {} ; return a == {} ; }} }}", l, l, l))));
    }
    for (nm, t) in [
        ("try-without-returns", "try this . p ( ) { h ++ ; } catch { h -- ; }"),
        ("try-with-returns", "try this . p ( ) returns ( uint256 v ) { h ++ ; } catch Error ( string memory r ) { h -- ; } catch ( bytes memory b ) { ++ h ; }"),
        ("try-new", "try new Lit ( ) { h ++ ; } catch { h -- ; }"),
        ("try-call-options", "try this . p { value : h ++ , gas : 1 + 2 } ( ) { h -- ; } catch { }"),
        ("nested-try", "try this . p ( ) { try this . q ( ) { h ++ ; } catch { } } catch { h -- ; }"),
    ] {
        v.push((format!("scale:{}", nm), toks(&format!("pragma solidity 0.8.19 ; contract Try {{ uint256 h ; function f ( ) public payable {{ {} }} }}", t))));
    }
    for id in ["\u{e9}", "\u{e9}t\u{e9}", "\u{43f}\u{440}", "\u{4e2d}\u{6587}", "$", "$x", "_$", "_\u{e9}", "a\u{e9}"] {
        v.push((
            format!("scale:identifier-{}", id),
            toks(&format!("pragma solidity 0.8.19 ; contract Id {{ uint256 private {id} ; uint256 constant public {id}c = 1 ; function {id}f ( uint256 {id}p ) private {{ {id} = {id}p ; }} function {id}g ( ) public payable {{ }} modifier {id}m ( ) {{ _ ; }} event {id}E ( ) ; struct {id}S {{ uint128 {id}a ; uint256 {id}b ; uint128 {id}c ; }} }}", id = id)),
        ));
    }
    // statements and expressions off the beaten track (each also carries ordinary instances of several patterns, so that a
    // construct that swallows its operands or its body shows as a miss)
    for (nm, t) in [
        ("bare-catch-body", "try this . p ( ) returns ( uint256 v ) { h ++ ; } catch { h ++ ; h = h * 2 ; if ( h >= 1 ) { } }"),
        ("for-without-body", "for ( h = 0 ; h < arr . length && h >= 1 ; ++ h ) ; for ( ; ; ) { break ; }"),
        ("open-slices", "bytes memory d = msg . data [ : h / 32 * 32 ] ; d = msg . data [ h * 2 : ] ; d = msg . data [ 1 : h ++ ] ; IERC20 ( t ) . transfer ( t , h ) ;"),
        ("tuple-with-holes", "( h , , g ) = q ( ) ; ( , h ) = q ( ) ; ( h , ) = q ( ) ; ( uint256 a , , uint256 b ) = q ( ) ; a = b + 1 ;"),
        ("named-arguments-and-options", "q ( { x : h ++ , y : h * 2 } ) ; t . call { value : h + 1 , gas : 2 ** 3 } ( \"\" ) ; new Try { salt : bytes32 ( h ) } ( ) ;"),
        ("conditional-delete-typeinfo", "h = h >= 1 ? h ++ : h * 2 ; delete h ; h = type ( uint256 ) . max ; bytes4 i4 = type ( IERC20 ) . interfaceId ; h = h == 0 ? 1 : 2 ;"),
        ("emit-revert-custom", "emit Ev ( h ++ , h * 2 ) ; if ( h >= 1 ) { revert Custom ( h + 1 ) ; } revert ( ) ;"),
        ("do-while-unchecked", "do { h ++ ; } while ( h <= 10 ) ; unchecked { ++ h ; h ++ ; } ++ h ;"),
        ("assembly-with-calls", "assembly { sstore ( keccak256 ( 0 , 64 ) , h ) mstore ( 0 , keccak256 ( 0 , 32 ) ) let k := keccak256 ( 0 , 32 ) if eq ( k , 0 ) { revert ( 0 , 0 ) } for { } lt ( k , 10 ) { k := add ( k , 1 ) } { } selfdestruct ( k ) } h = uint256 ( keccak256 ( abi . encode ( h ) ) ) ;"),
    ] {
        v.push((format!("scale:{}", nm), toks(&format!("pragma solidity 0.8.19 ; contract Rare {{ uint256 h ; uint256 g ; uint256 [ ] arr ; address t ; function f ( ) public payable {{ {} }} }}", t))));
    }
    // declarations off the beaten track
    for (nm, t) in [
        ("address-payable-state-variables", "contract Ap { address payable public _treasury ; address payable private sink ; address payable public constant DEAD = payable ( address ( 1 ) ) ; address payable immutable keep ; constructor ( ) { keep = payable ( msg . sender ) ; sink = payable ( msg . sender ) ; } }"),
        ("fixed-size-arrays", "contract Fa { uint256 [ 256 ] nodes ; address owner ; uint256 [ 200 ] a ; uint256 [ 200 ] b ; struct S { bool b ; uint128 [ 1024 ] x ; bool c ; } uint8 [ 3 ] [ 4 ] grid ; }"),
        ("unnamed-parameters", "contract Un { function onReceived ( address , address , uint256 , bytes memory ) external returns ( bytes4 ) { return 0x150b7a02 ; } function g ( uint256 [ ] memory , string memory s ) public { s = s ; } }"),
        ("interface-declarations", "interface Idecl { function _p ( ) external ; function q ( bytes memory data ) external returns ( uint256 ) ; } abstract contract Adecl { function f ( ) external virtual ; constructor ( ) { } modifier m ( ) virtual ; }"),
        ("non-elementary-state-variables", "contract Ne { struct P { uint256 x ; } uint256 [ ] values ; P point ; IERC20 token ; mapping ( address => uint256 ) bal ; function ( ) external cb ; function w ( uint256 [ ] memory v , P memory p , IERC20 k ) public { values = v ; point = p ; token = k ; } }"),
        ("typeinfo-in-constructor", "interface Itf { function f ( ) external ; } contract Ti { bytes4 id ; uint256 top ; constructor ( ) { id = type ( Itf ) . interfaceId ; top = type ( uint256 ) . max ; } }"),
        ("value-types-and-operators", "type Price is uint128 ; using { padd } for Price global ; function padd ( Price a , Price b ) pure returns ( Price ) { return a ; } struct Order { Price bid ; uint256 amount ; Price ask ; } contract Book { Price a ; uint256 b ; Price c ; }"),
        ("file-level-only", "struct Lone { uint128 a ; uint256 b ; uint128 c ; } uint256 constant K = 7 * 2 ; function lone ( uint256 [ ] memory p , uint256 q ) pure returns ( uint256 ) { return p [ 0 ] / q * 4 + q ++ ; } error Failed ( uint256 a ) ; enum Kind { A , B }"),
        ("nested-mapping-and-imports", "import { A as B } from \"./x.sol\" ; import * as X from \"./y.sol\" ; contract Nm is B { mapping ( address => mapping ( uint256 => bool ) ) public flags ; }"),
    ] {
        v.push((format!("scale:{}", nm), toks(&format!("pragma solidity 0.8.19 ; {}", t))));
    }
    // files with no definition at all / with a directive only
    v.push(("scale:directive-only".to_string(), toks("pragma solidity ^ 0.8.0 ;")));
    v.push(("scale:two-directives-only".to_string(), toks("pragma abicoder v2 ; pragma solidity ^ 0.8.0 ;")));
    for (nm, t) in [
        ("undeclared-modifier", "contract V is O { function close ( ) public auth { selfdestruct ( payable ( msg . sender ) ) ; } }"),
        ("undeclared-modifier-with-arguments", "contract V is O { function close ( ) external auth ( msg . sender ) whenOpen { selfdestruct ( payable ( msg . sender ) ) ; } }"),
        ("unnamed-fallback", "contract W { function ( ) external payable { } }"),
        ("constructor-without-body", "abstract contract B { constructor ( uint256 a ) internal ; }"),
        ("function-type-members", "contract Ft { function ( uint256 ) external returns ( bool ) cb ; function ( ) internal pure [ ] fs ; }"),
    ] {
        v.push((format!("scale:{}", nm), toks(&format!("pragma solidity 0.8.19 ; {}", t))));
    }
    v
}

pub fn shape_items() -> Vec<Item> {
    shape_toks().iter().map(|(l, t)| item(l, t)).collect()
}

pub fn width_toks(thorough: bool) -> Vec<(String, Vec<String>)> {
    let mut v: Vec<(String, Vec<String>)> = Vec::new();
    let ns: Vec<usize> = if thorough { vec![63, 64, 65, 66, 71, 255, 256, 257, 300, 1025] } else { vec![65, 257] };
    for &n in &ns {
        // n functions, then a constructor (constructor_order), then one more function
        let mut t = toks("pragma solidity 0.8.19 ; contract Wide {");
        for k in 0..n {
            t.extend(toks(&format!("function f{} ( uint256 a ) external payable returns ( uint256 ) {{ return a + {} ; }}", k, k)));
        }
        t.extend(toks("constructor ( ) { } function last ( uint256 a ) public payable returns ( uint256 ) { return a * 2 ; } }"));
        v.push((format!("scale:{}-functions-before-the-constructor", n), t));
        // n state variables, the LAST one written (and the first one never)
        let mut t = toks("pragma solidity 0.8.19 ; contract Vars {");
        for k in 0..n {
            t.extend(toks(&format!("uint256 v{} ;", k)));
        }
        t.extend(toks(&format!("function w ( uint256 a ) external payable {{ v{} = a ; }} }}", n - 1)));
        v.push((format!("scale:{}-state-variables-last-one-written", n), t));
        // n statements, n call arguments, n parameters, n array elements, n events
        let mut t = toks("pragma solidity 0.8.19 ; contract Args { function g (");
        t.extend(toks(&(0..n).map(|k| format!("uint256 p{}", k)).collect::<Vec<_>>().join(" , ")));
        t.extend(toks(") public payable { h ("));
        t.extend(toks(&(0..n).map(|k| format!("p{} + 1", k)).collect::<Vec<_>>().join(" , ")));
        t.extend(toks(") ; uint256 [ ] memory arr = ["));
        t.extend(toks(&(0..n).map(|k| format!("{} * 2", k)).collect::<Vec<_>>().join(" , ")));
        t.extend(toks("] ; }"));
        for k in 0..n {
            t.extend(toks(&format!("event E{} ( uint256 a ) ;", k)));
        }
        t.push("}".into());
        v.push((format!("scale:{}-parameters-arguments-elements-events", n), t));
    }
    v
}

/// string lengths around 32 and on both sides of 256 / 65536, with quote characters at the ends
pub fn string_items(thorough: bool) -> Vec<Item> {
    let mut v = Vec::new();
    let mut lens: Vec<usize> = vec![31, 32, 33, 255, 256, 257, 287, 288];
    if thorough {
        lens.extend([0, 1, 30, 34, 63, 64, 65, 254, 258, 286, 289, 511, 512, 513, 543, 544, 65535, 65536, 65537, 65567, 65568]);
    }
    for ver in ["0.8.3", "0.8.4"] {
        for &n in &lens {
            let body = "m".repeat(n);
            let mut forms = vec![("plain", body.clone())];
            if n >= 2 && n <= 40 {
                forms.push(("quote-at-the-end", format!("{}'", &body[1..])));
                forms.push(("quotes-at-both-ends", format!("'{}'", &body[2..])));
                forms.push(("escaped-quote-at-the-start", format!("\\\"{}", &body[2..])));
            }
            for (fnm, s) in forms {
                let t = toks(&format!("pragma solidity {} ; contract Str {{ function f ( bool c ) public payable {{ require ( c , \"{}\" ) ; }} }}", ver, s.replace(' ', "~")));
                v.push(item(&format!("scale:revert-string-{}-bytes-{}@{}", n, fnm, ver), &t));
            }
        }
    }
    v
}
