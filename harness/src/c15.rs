//! C15 — each (file, pattern) verdict is independent of everything else in the run
//! (DESIGN.md section 7, C15): history exploration against fresh-process baselines, directory
//! contexts through the listing seam, call-level interleavings of real OS threads under a baton,
//! and a free-running (sampled, labelled) stress of the same bodies.

use crate::corpus::Tier;
use crate::dets::{self, Detector};
use crate::ev::{Run, Violation};
use crate::fsx::{self, Entry};
use crate::report::permutations;
use crate::util;
use serde_json::json;
use std::collections::{BTreeSet, HashMap, HashSet};
use std::sync::{Arc, Condvar, Mutex};

pub const BODY_A: &str = "pragma solidity ^0.8.0;\ncontract A {\n  uint256 total;\n  function f(uint256 a, address t) public returns (uint256) {\n    require(a >= 1 && t != address(0), \"a revert string that is longer than thirty-two bytes\");\n    total = a * 8 + 1;\n    IERC20(t).transfer(msg.sender, a / 2 * 4);\n    return a++;\n  }\n  constructor() { total = 1; }\n}\n";
pub const BODY_B: &str = "pragma solidity 0.7.6;\ncontract B {\n  using SafeMath for uint256;\n  uint128 x; uint256 y; uint128 z;\n  uint256 private hidden;\n  function g(uint256[] memory arr, bool b) external returns (uint256) {\n    for (uint256 i = 0; i < arr.length; i++) { arr[0] = arr[0] + 1; }\n    if (b == true) { selfdestruct(payable(msg.sender)); }\n    require(b, \"a revert string that is longer than thirty-two bytes\");\n    return arr[0].add(2) + address(this).balance;\n  }\n}\n";
const BODY_D: &str = "pragma abicoder v2;\ncontract D {\n  using SafeMath for uint256;\n  function h(\n    bytes memory first,\n    string memory second,\n    uint256[] memory third\n  ) external returns (uint256) {\n    return uint256(1).add(2).sub(1);\n  }\n}\n";
const BODY_E0: &str = "pragma solidity 0.8.19;\ncontract Base {\n  uint256 fee;\n  address owner;\n  function setFee(uint256 f) external payable { fee = f; }\n}\n";
pub const BODY_E1: &str = "pragma solidity 0.8.19;\ncontract Vault is Base {\n  uint256 shares;\n  function mint(uint256 s) external payable { shares = s; }\n}\ncontract Quoter {\n  function quote(uint256 a) external payable returns (uint256 fee) {\n    fee = a / 100;\n    address owner;\n    owner = msg.sender;\n    require(a > 0, \"part one \" \"part two\");\n  }\n}\n";
pub const BODY_C: &str = "pragma solidity 0.8.3;\nstruct S { uint128 a; uint256 b; uint128 c; }\ncontract C {\n  using SafeMath for uint256;\n  uint256 constant K = 1;\n  uint256 never;\n  function _pub() public payable { }\n  function priv() private { bytes32 h = keccak256(abi.encode(never)); h; }\n  function w(bytes memory data) external payable { require(data.length > 0, \"short\"); }\n  function both(uint256 a) external payable returns (uint256) {\n    require(a > 0, \"a revert string that is longer than thirty-two bytes\");\n    return a.add(1);\n  }\n}\n";

pub fn files(tier: Tier) -> Vec<(String, String)> {
    // pairs of files with the same byte length but different line layouts are part of the alphabet
    let mut v = vec![
        ("fa0".to_string(), format!("\n\n{}", BODY_A)),
        ("fa1".to_string(), format!("{}\n\n", BODY_A)),
        ("fb0".to_string(), format!("// same length\n{}", BODY_B)),
        ("fb1".to_string(), format!("{}// same length\n", BODY_B)),
    ];
    // version 0.8.3: between the two version gates (0.8.0 and 0.8.4), so a pre-gate and a post-gate pattern both report
    v.push(("fc0".to_string(), BODY_C.to_string()));
    // no solidity pragma, SafeMath attached, several memory parameters on different lines
    v.push(("fd0".to_string(), BODY_D.to_string()));
    // a base contract in one file, a derived contract plus an unrelated one (with locals of the same
    // names and a multi-part revert string) in another
    v.push(("fe0".to_string(), BODY_E0.to_string()));
    v.push(("fe1".to_string(), BODY_E1.to_string()));
    if tier == Tier::Thorough {
        v.push(("fc1".to_string(), format!("\n{}", BODY_C)));
    }
    v
}

type Lines = BTreeSet<i32>;

/// child mode: perform exactly one call and print the result
pub fn child_call(fidx: usize, det: &str, fileno: usize) -> i32 {
    util::quiet();
    let fs = files(Tier::Thorough);
    let d = match dets::by_names(&[det]).into_iter().next() {
        Some(d) => d,
        None => return 2,
    };
    match dets::run_guarded(&d, &fs[fidx].1, fileno) {
        Ok(l) => println!("{}", json!({"ok": l.iter().collect::<Vec<_>>()})),
        Err(e) => println!("{}", json!({"panic": e})),
    }
    0
}

fn baseline(fs_thorough_index: &[usize], detectors: &[Detector], run: &mut Run) -> HashMap<(usize, &'static str), Lines> {
    let me = std::env::current_exe().unwrap();
    let jobs: Vec<(usize, usize, &'static str)> = fs_thorough_index.iter().enumerate().flat_map(|(i, &ti)| detectors.iter().map(move |d| (i, ti, d.name))).collect();
    let res = util::par_map(jobs.len(), |j| {
        let (i, ti, name) = jobs[j];
        let out = std::process::Command::new(&me).args(["C15-call", &ti.to_string(), name, "0"]).output();
        match out {
            Ok(o) => {
                let txt = String::from_utf8_lossy(&o.stdout);
                let v: serde_json::Value = serde_json::from_str(txt.lines().last().unwrap_or("")).unwrap_or(json!({}));
                match v.get("ok").and_then(|x| x.as_array()) {
                    Some(a) => Ok(((i, name), a.iter().filter_map(|x| x.as_i64()).map(|x| x as i32).collect::<Lines>())),
                    None => Err(format!("baseline call ({}, {}) failed: {}", ti, name, txt)),
                }
            }
            Err(e) => Err(format!("cannot spawn baseline child: {}", e)),
        }
    });
    let mut m = HashMap::new();
    for r in res {
        match r {
            Ok((k, v)) => {
                m.insert(k, v);
            }
            Err(e) => run.machinery(e),
        }
    }
    m
}

fn scan_sources(run: &mut Run) {
    let mut hits: Vec<String> = Vec::new();
    fn walk(d: &std::path::Path, hits: &mut Vec<String>) {
        if let Ok(rd) = std::fs::read_dir(d) {
            for e in rd.flatten() {
                let p = e.path();
                if p.is_dir() {
                    walk(&p, hits);
                } else if p.extension().map(|x| x == "rs").unwrap_or(false) && !p.ends_with("verif_fs.rs") {
                    if let Ok(t) = std::fs::read_to_string(&p) {
                        for (n, l) in t.lines().enumerate() {
                            let c = l.trim_start();
                            if c.starts_with("//") {
                                continue;
                            }
                            for pat in ["static ", "thread_local!", "unsafe ", "Mutex", "RwLock", "Atomic", "OnceLock", "OnceCell", "lazy_static", "RefCell"] {
                                if c.contains(pat) && !c.contains("'static") {
                                    hits.push(format!("{}:{}: {}", p.display(), n + 1, c.chars().take(80).collect::<String>()));
                                    break;
                                }
                            }
                        }
                    }
                }
            }
        }
    }
    walk(&std::path::Path::new(&crate::ev::repo_home()).join("src"), &mut hits);
    if hits.is_empty() {
        run.assume("source scan of /repo/src: no static / thread_local! / unsafe / lock / atomic / cell construct: calls share no memory, so call-level interleavings are all the distinguishable schedules");
    } else {
        run.assume(&format!("source scan of /repo/src found shared-state constructs ({}): interleavings INSIDE a call are then not covered by the baton schedules; only the free-running (sampled) stress probes them. First hits: {:?}", hits.len(), hits.iter().take(3).collect::<Vec<_>>()));
    }
    run.set("shared_state_constructs_in_source", hits.len() as u64);
}

#[derive(Clone, Copy, Debug, PartialEq, Eq, Hash)]
struct Call {
    f: usize,
    d: usize,
    fileno: usize,
}

fn do_call(c: Call, fs: &[(String, String)], detectors: &[Detector]) -> Result<Lines, String> {
    dets::run_guarded(&detectors[c.d], &fs[c.f].1, c.fileno)
}

fn dedup<T: PartialEq + Copy>(xs: &[T]) -> Vec<T> {
    let mut v: Vec<T> = Vec::new();
    for x in xs {
        if !v.contains(x) {
            v.push(*x);
        }
    }
    v
}

fn mismatch(c: Call, got: &Result<Lines, String>, r0: &HashMap<(usize, &'static str), Lines>, detectors: &[Detector]) -> bool {
    match got {
        Ok(g) => r0.get(&(c.f, detectors[c.d].name)).map(|w| w != g).unwrap_or(false),
        Err(_) => true,
    }
}

pub fn run(tier: Tier) -> i32 {
    util::quiet();
    let mut run = Run::new("C15", if tier == Tier::Quick { "quick" } else { "thorough" });
    scan_sources(&mut run);
    let detectors = dets::all();
    let fs = files(tier);
    let all_fs = files(Tier::Thorough);
    let idx: Vec<usize> = fs.iter().map(|(n, _)| all_fs.iter().position(|(m, _)| m == n).unwrap()).collect();
    let r0 = baseline(&idx, &detectors, &mut run);
    let baseline_calls = r0.len() as u64;
    let nontrivial = r0.values().filter(|v| !v.is_empty()).count() as u64;
    let describe = |c: Call| format!("({}, {}, file number {})", fs[c.f].0, detectors[c.d].name, c.fileno);

    let t_phase = std::time::Instant::now();
    // ---------------------------------------------------------------- histories (fresh thread per history)
    let filenos: Vec<usize> = if tier == Tier::Quick { vec![0, 7] } else { vec![0, 1, 7, 1_000_000] };
    let mut alphabet: Vec<Call> = Vec::new();
    for f in 0..fs.len() {
        for d in 0..detectors.len() {
            for &n in &filenos {
                alphabet.push(Call { f, d, fileno: n });
            }
        }
    }
    let mut histories: Vec<Vec<Call>> = Vec::new();
    for a in &alphabet {
        for b in &alphabet {
            // quick: second call uses the same file number class to halve the square; pairs of equal-length files are always kept
            if tier == Tier::Quick && a.fileno != b.fileno && !(a.f / 2 == b.f / 2) {
                continue;
            }
            // quick: the second file-number class (7) only for pairs that share a file, a detector or a byte length
            if tier == Tier::Quick && a.fileno == 7 && b.fileno == 7 && !(a.f == b.f || a.d == b.d || a.f / 2 == b.f / 2) {
                continue;
            }
            histories.push(vec![*a, *b]);
        }
    }
    if tier == Tier::Thorough {
        let small: Vec<Call> = alphabet.iter().filter(|c| c.fileno == 0).copied().collect();
        for a in &small {
            for b in &small {
                if !(a.f == b.f || a.d == b.d) {
                    continue;
                }
                for c in &small {
                    if (c.f == a.f && c.d == a.d) || (c.f / 2 == b.f / 2 && c.d == b.d && c.f != b.f) {
                        histories.push(vec![*a, *b, *c]);
                    }
                }
            }
        }
    }
    let hres = util::par_map(histories.len(), |i| {
        let h = histories[i].clone();
        let fs = &fs;
        let detectors = &detectors;
        // a fresh OS thread per history so that thread-local state starts empty
        std::thread::scope(|s| s.spawn(move || h.iter().map(|c| do_call(*c, fs, detectors)).collect::<Vec<_>>()).join().unwrap())
    });
    let mut hist_calls = 0u64;
    for (h, rs) in histories.iter().zip(hres.iter()) {
        for (k, (c, r)) in h.iter().zip(rs.iter()).enumerate() {
            hist_calls += 1;
            if mismatch(*c, r, &r0, &detectors) {
                run.violation(Violation {
                    site: format!("history:{}:{}", detectors[c.d].name, if k == 0 { "first-call-differs-from-fresh-process" } else { "result-depends-on-earlier-call" }),
                    input: format!("{:?}", h.iter().map(|c| describe(*c)).collect::<Vec<_>>()),
                    expected: format!("call #{} returns {:?} (the result of the same call in a fresh process)", k + 1, r0.get(&(c.f, detectors[c.d].name))),
                    observed: format!("{:?}", r),
                    size: h.len() * 10 + k,
                    unit_test: String::new(),
                    extra: json!({}),
                });
            }
        }
    }

    eprintln!("[C15 phase] before 'directory contexts': {:.1}s", t_phase.elapsed().as_secs_f64());
    // ---------------------------------------------------------------- directory contexts
    let sel_sets: Vec<Vec<usize>> = {
        // ordered selections of <= 3 detectors of one category containing the target
        let mut v = Vec::new();
        for d in 0..detectors.len() {
            v.push(vec![d]);
        }
        v
    };
    let _ = sel_sets;
    let mut trees: Vec<Vec<Entry>> = Vec::new();
    let fe = |i: usize| Entry::File { name: format!("{}.sol", fs[i].0), content: fs[i].1.as_bytes().to_vec() };
    let n = fs.len();
    for a in 0..n {
        trees.push(vec![fe(a)]);
        trees.push(vec![Entry::Dir { name: "d1".into(), children: vec![fe(a)] }]);
        for b in 0..n {
            if a == b {
                continue;
            }
            trees.push(vec![fe(a), fe(b)]);
            trees.push(vec![Entry::Dir { name: "d1".into(), children: vec![fe(a)] }, Entry::Dir { name: "d2".into(), children: vec![fe(b)] }]);
            // the same base name in sibling directories
            let named = |i: usize| Entry::File { name: "Token.sol".into(), content: fs[i].1.as_bytes().to_vec() };
            trees.push(vec![Entry::Dir { name: "core".into(), children: vec![named(a)] }, Entry::Dir { name: "periphery".into(), children: vec![named(b)] }]);
            trees.push(vec![fe(a), Entry::Dir { name: "d1".into(), children: vec![fe(b)] }]);
            if tier == Tier::Thorough {
                for c in 0..n {
                    if c != a && c != b && c > b {
                        trees.push(vec![fe(a), fe(b), fe(c)]);
                        trees.push(vec![fe(a), Entry::Dir { name: "d1".into(), children: vec![fe(b), fe(c)] }]);
                    }
                }
            }
        }
    }
    // neighbours that are related to the observed file or degenerate: byte-identical copies under another name (same
    // directory, nested, sibling directories, three copies), empty / blank / comment-only / pragma-only source files
    for a in 0..n {
        let copy = |name: &str| Entry::File { name: name.into(), content: fs[a].1.as_bytes().to_vec() };
        let raw = |name: &str, c: &str| Entry::File { name: name.into(), content: c.as_bytes().to_vec() };
        let b = (a + 1) % n;
        trees.push(vec![fe(a), copy("Copy.sol")]);
        trees.push(vec![fe(a), Entry::Dir { name: "d1".into(), children: vec![copy("Copy.sol")] }]);
        trees.push(vec![Entry::Dir { name: "d1".into(), children: vec![fe(a)] }, Entry::Dir { name: "d2".into(), children: vec![copy("Vendored.sol")] }]);
        trees.push(vec![fe(a), copy("Copy.sol"), Entry::Dir { name: "d1".into(), children: vec![copy("Third.sol"), fe(b)] }]);
        for (nm, c) in [("Empty.sol", ""), ("Blank.sol", " \n\t\r\n"), ("Comment.sol", "// nothing here\n/* nor here */\n"), ("Pragma.sol", "pragma solidity ^0.8.0;\n")] {
            trees.push(vec![fe(a), raw(nm, c)]);
            trees.push(vec![raw(nm, c), fe(a), Entry::Dir { name: "d1".into(), children: vec![fe(b)] }]);
            trees.push(vec![Entry::Dir { name: "d0".into(), children: vec![raw(nm, c), fe(b)] }, fe(a)]);
        }
    }
    // "whatever position the file has in its directory", "whichever other files": a directory of 65 / 70 / 257 files (every file of the
    // alphabet many times under different names), sibling names that differ only in how a number is written, test files next
    // to each other around an ordinary file
    {
        let named = |name: String, i: usize| Entry::File { name, content: fs[i % n].1.as_bytes().to_vec() };
        for width in [65usize, 70, 257] {
            trees.push((0..width).map(|k| named(format!("W{:03}.sol", k), k)).collect());
        }
        trees.push(vec![named("Vault1.sol".into(), 0), named("Vault01.sol".into(), 1), named("Token7.sol".into(), 2), named("Token007.sol".into(), 3)]);
        trees.push(vec![named("A.t.sol".into(), 0), named("B.t.sol".into(), 1), named("C.sol".into(), 2)]);
        trees.push(vec![named("A.t.sol".into(), 1), named("B.t.sol".into(), 0)]);
    }
    use solstat::analyzer::optimizations as opt;
    use solstat::analyzer::qa;
    use solstat::analyzer::vulnerabilities as vul;
    let pattern_orders: Vec<fsx::Selection> = {
        let o = opt::get_all_optimizations();
        let v = vul::get_all_vulnerabilities();
        let q = qa::get_all_qa();
        let mut s = vec![fsx::Selection { opts: o.clone(), vulns: v.clone(), qas: q.clone() }, fsx::Selection { opts: o.iter().rev().cloned().collect(), vulns: v.iter().rev().cloned().collect(), qas: q.iter().rev().cloned().collect() }];
        // singletons and rotated pairs: co-selection must not matter
        for k in 0..o.len() {
            s.push(fsx::Selection { opts: vec![o[k], o[(k + 5) % o.len()]], vulns: vec![v[k % v.len()]], qas: vec![q[k % q.len()], q[(k + 1) % q.len()]] });
        }
        s
    };
    let dres = util::par_map(trees.len(), |ti| {
        let tree = &trees[ti];
        let root = std::path::PathBuf::from(format!("/dev/shm/solstat-mc.{}.c15.{:?}", std::process::id(), std::thread::current().id()).replace(['(', ')'], ""));
        let root = if std::path::Path::new("/dev/shm").is_dir() { root } else { std::path::PathBuf::from(format!("/verif/.build/scratch/c15.{}.{}", std::process::id(), ti)) };
        let _ = std::fs::remove_dir_all(&root);
        fsx::materialise(&root, tree);
        let mut vs = Vec::new();
        let mut states = 0u64;
        for order in fsx::all_orders(&root, tree) {
            for (si, sel) in pattern_orders.iter().enumerate() {
                if si >= 2 && (si + ti) % 4 != 0 {
                    continue;
                }
                states += 1;
                solstat::verif_fs::set_order(order.clone());
                let got = fsx::run_analyze_dir(&root, sel);
                solstat::verif_fs::clear_order();
                let want = fsx::per_file_union(tree, sel);
                if got != want {
                    vs.push(Violation {
                        site: "directory:verdict-depends-on-siblings-position-or-co-selected-patterns".into(),
                        input: format!("tree {} listing {:?} selection #{}", fsx::describe(tree), order.values().collect::<Vec<_>>(), si),
                        expected: "every (file, pattern) entry equals the result of analysing that file alone".into(),
                        observed: format!("{:?} vs {:?}", got.as_ref().map(|g| g.len()), want.as_ref().map(|g| g.len())),
                        size: tree.len() * 10,
                        unit_test: String::new(),
                        extra: json!({}),
                    });
                }
            }
        }
        let _ = std::fs::remove_dir_all(&root);
        (vs, states)
    });
    let mut dir_states = 0u64;
    for (vs, s) in dres {
        dir_states += s;
        run.merge_violations(vs);
    }
    // per-file union itself is anchored to the fresh-process baseline: analyse each file alone in this
    // process once more and compare with R0 (first call of a fresh thread)
    for f in 0..fs.len() {
        for d in 0..detectors.len() {
            let c = Call { f, d, fileno: 0 };
            let fs2 = &fs;
            let det2 = &detectors;
            let r = std::thread::scope(|s| s.spawn(move || do_call(c, fs2, det2)).join().unwrap());
            if mismatch(c, &r, &r0, &detectors) {
                run.violation(Violation {
                    site: format!("process:{}:in-process-result-differs-from-fresh-process", detectors[d].name),
                    input: describe(c),
                    expected: format!("{:?}", r0.get(&(f, detectors[d].name))),
                    observed: format!("{:?}", r),
                    size: 1,
                    unit_test: String::new(),
                    extra: json!({}),
                });
            }
        }
    }

    // ---- pathological predecessors: "whichever other files are analysed in the same run".  On ONE thread (large stack)
    //      every detector first runs on a source that is extreme in one dimension — nested far beyond any depth limit with
    //      thousands of nodes below it, thousands of statements, a two-thousand-term operator chain, a source the parser
    //      rejects (every detector panics) — and then every ordinary file is analysed by every detector; the results must be
    //      those of the fresh-process baseline.  What the extreme source itself yields is not judged here.
    {
        let deep = format!(
            "pragma solidity 0.8.19;\ncontract P {{\n  function f(uint256 a) public {{\n    x = {}g({}){};\n  }}\n}}\n",
            "(".repeat(1100),
            vec!["a"; 1300].join(", "),
            ")".repeat(1100)
        );
        let wide = format!("pragma solidity 0.8.19;\ncontract P {{\n  uint256 x;\n  function f(uint256 a) public {{\n{}  }}\n}}\n", "    x = a + 1;\n".repeat(6000));
        let chain = format!("pragma solidity 0.8.19;\ncontract P {{\n  function f(uint256 a) public returns (uint256) {{\n    return {};\n  }}\n}}\n", vec!["a"; 2000].join(" + "));
        let rejected = "pragma solidity 0.8.19;\ncontract P { function f( { ) } ".to_string();
        // a predecessor that DECLARES things by name (value types, a library, constants): what it declares belongs to it alone
        let declares = "pragma solidity 0.8.19;\ntype Price is uint128;\ntype Qty is uint64;\nuint256 constant total = 1;\nlibrary SafeMath { function add(uint256 a, uint256 b) internal pure returns (uint256) { return a + b; } }\n".to_string();
        let poisons: Vec<(&str, String)> = vec![("nested-1100-with-1300-arguments", deep), ("6000-statements", wide), ("2000-term-chain", chain), ("rejected-by-the-parser", rejected), ("declares-value-types-constants-and-a-library", declares)];
        // two more files, outside the alphabet of the histories: one that USES names another file may declare, and one whose
        // verdicts need several passes over a name-keyed table (a chain of initialisers); their baseline is the first call on a
        // fresh thread, and every later call — after any predecessor, and twenty times in a row — must repeat it
        let extras: Vec<(&str, String)> = vec![
            ("uses-value-types-by-name", "pragma solidity 0.8.19;\nstruct Order { Price bid; uint256 amount; Price ask; }\ncontract Book {\n  Qty a; uint256 b; Qty c;\n  uint256 total;\n  function f(uint256 x) public payable { total = x.add(1); }\n}\n".to_string()),
            ("chain-of-initialisers", "pragma solidity 0.8.19;\ncontract Chain {\n  uint256 a;\n  uint256 b = a + 1;\n  uint256 c = b + 1;\n  uint256 d = c + 1;\n  uint256 e = d + 1;\n  uint256 lone = 5;\n  function w(uint256 v) public payable { a = v; }\n}\n".to_string()),
        ];
        let fs2 = &fs;
        let det2 = &detectors;
        let r0b = &r0;
        let found: Vec<Violation> = std::thread::scope(|sc| {
            std::thread::Builder::new()
                .stack_size(1usize << 30)
                .spawn_scoped(sc, move || {
                    let mut vs = Vec::new();
                    // baselines of the extra files: each (file, detector) on a thread of its own
                    let mut xbase: Vec<Vec<Result<Lines, String>>> = Vec::new();
                    for (_, xt) in &extras {
                        let mut row = Vec::new();
                        for d in det2.iter() {
                            let (xt2, d2) = (xt.clone(), d.clone());
                            row.push(std::thread::spawn(move || dets::run_guarded(&d2, &xt2, 0)).join().unwrap_or_else(|_| Err("thread panicked".into())));
                        }
                        xbase.push(row);
                    }
                    let mut check_extras = |after: &str, vs: &mut Vec<Violation>| {
                        for (xi, (xn, xt)) in extras.iter().enumerate() {
                            for (di, d) in det2.iter().enumerate() {
                                let r = dets::run_guarded(d, xt, 0);
                                if r != xbase[xi][di] {
                                    vs.push(Violation {
                                        site: format!("sequence:{}:verdict-differs-from-the-first-call-on-a-fresh-thread", d.name),
                                        input: format!("file '{}' analysed {}", xn, after),
                                        expected: format!("{:?}", xbase[xi][di]),
                                        observed: format!("{:?}", r),
                                        size: 3,
                                        unit_test: String::new(),
                                        extra: json!({"file": xt}),
                                    });
                                }
                            }
                        }
                    };
                    for k in 0..20 {
                        check_extras(&format!("again on one thread (repetition {})", k + 1), &mut vs);
                    }
                    for (pn, ptext) in &poisons {
                        let t0 = std::time::Instant::now();
                        for d in det2.iter() {
                            let _ = dets::run_guarded(d, ptext, 0);
                        }
                        eprintln!("[C15 phase] extreme predecessor '{}': {:.1}s", pn, t0.elapsed().as_secs_f64());
                        check_extras(&format!("on the same thread after every detector ran on a source of kind '{}'", pn), &mut vs);
                        for f in 0..fs2.len() {
                            for d in 0..det2.len() {
                                let c = Call { f, d, fileno: 0 };
                                let r = do_call(c, fs2, det2);
                                if mismatch(c, &r, r0b, det2) {
                                    vs.push(Violation {
                                        site: format!("sequence:{}:verdict-depends-on-an-extreme-file-analysed-before", det2[d].name),
                                        input: format!("{} analysed on the same thread after every detector ran on a source of kind '{}'", describe(c), pn),
                                        expected: format!("{:?}", r0b.get(&(f, det2[d].name))),
                                        observed: format!("{:?}", r),
                                        size: 2,
                                        unit_test: String::new(),
                                        extra: json!({"predecessor": pn}),
                                    });
                                }
                            }
                        }
                    }
                    vs
                })
                .unwrap()
                .join()
                .unwrap_or_default()
        });
        dir_states += (5 * (detectors.len() + fs.len() * detectors.len()) + 25 * 2 * detectors.len()) as u64;
        run.merge_violations(found);
    }

    // ---- lists in which a pattern is named more than once (a configuration file may do that): [a, b, a] for every
    //      ordered pair of one category and [a, a]; the lines of every (file, pattern) entry are still those of the
    //      file analysed alone, and no (file, pattern) with findings is lost
    {
        let tree: Vec<Entry> = (0..n).map(|i| fe(i)).collect();
        let root = std::path::PathBuf::from(format!("/dev/shm/solstat-mc.{}.c15rep", std::process::id()));
        let root = if std::path::Path::new("/dev/shm").is_dir() { root } else { std::path::PathBuf::from(format!("/verif/.build/scratch/c15rep.{}", std::process::id())) };
        let _ = std::fs::remove_dir_all(&root);
        fsx::materialise(&root, &tree);
        let o = opt::get_all_optimizations();
        let v = vul::get_all_vulnerabilities();
        let q = qa::get_all_qa();
        let mut sels: Vec<fsx::Selection> = Vec::new();
        for a in 0..o.len() {
            sels.push(fsx::Selection { opts: vec![o[a], o[a]], vulns: vec![], qas: vec![] });
            for b in 0..o.len() {
                if a != b {
                    sels.push(fsx::Selection { opts: vec![o[a], o[b], o[a]], vulns: vec![], qas: vec![] });
                }
            }
        }
        for a in 0..v.len() {
            for b in 0..v.len() {
                sels.push(fsx::Selection { opts: vec![], vulns: if a == b { vec![v[a], v[a]] } else { vec![v[a], v[b], v[a]] }, qas: vec![] });
            }
        }
        for a in 0..q.len() {
            for b in 0..q.len() {
                sels.push(fsx::Selection { opts: vec![], vulns: vec![], qas: if a == b { vec![q[a], q[a]] } else { vec![q[a], q[b], q[a]] } });
            }
        }
        let rres = util::par_map(sels.len(), |si| {
            let sel = &sels[si];
            let got = fsx::run_analyze_dir(&root, sel);
            let want = fsx::per_file_union(&tree, &fsx::Selection { opts: dedup(&sel.opts), vulns: dedup(&sel.vulns), qas: dedup(&sel.qas) });
            let norm = |f: &Result<fsx::Findings, String>| f.as_ref().ok().map(|m| m.iter().map(|(k, v)| (*k, v.iter().cloned().collect::<BTreeSet<_>>())).filter(|(_, v)| !v.is_empty()).collect::<Vec<_>>());
            if norm(&got) != norm(&want) || got.is_err() {
                Some(Violation {
                    site: "directory:repeated-pattern-in-the-list-changes-a-verdict".into(),
                    input: format!("tree {} selection #{} (a pattern named twice)", fsx::describe(&tree), si),
                    expected: "every (file, pattern) entry equals the result of analysing that file alone".into(),
                    observed: format!("{:?} vs {:?}", norm(&got).map(|g| g.len()), norm(&want).map(|g| g.len())),
                    size: 5,
                    unit_test: String::new(),
                    extra: json!({}),
                })
            } else {
                None
            }
        });
        dir_states += sels.len() as u64;
        for v in rres.into_iter().flatten() {
            run.violation(v);
        }
        let _ = std::fs::remove_dir_all(&root);
    }
    // ---- the command-line program: a pattern selected alone and together with one pattern of each other category
    //      lists the same entries for every file
    if let Some(bin) = crate::binx::bin_path() {
        let tb = crate::report::tables();
        let root = crate::report::scratch_dir("c15bin");
        let proj = root.join("proj");
        // the files of the alphabet side by side, plus two of them again under ONE name in sibling directories
        let mut tree: Vec<Entry> = (0..n).map(|i| fe(i)).collect();
        let named = |i: usize| Entry::File { name: "Token.sol".into(), content: fs[i].1.as_bytes().to_vec() };
        tree.push(Entry::Dir { name: "core".into(), children: vec![named(0)] });
        tree.push(Entry::Dir { name: "periphery".into(), children: vec![named(1 % n)] });
        let twice: Vec<usize> = vec![0, 1 % n];
        fsx::materialise(&proj, &tree);
        let names = |xs: &[&str]| xs.iter().map(|x| x.to_string()).collect::<Vec<String>>();
        let all = (names(dets::OPT_NAMES), names(dets::VULN_NAMES), names(dets::QA_NAMES));
        let mut jobs: Vec<(String, usize, (Vec<String>, Vec<String>, Vec<String>))> = Vec::new();
        for (cat, list) in [(0usize, &all.0), (1, &all.1), (2, &all.2)] {
            for (k, name) in list.iter().enumerate() {
                let one = |c: usize| if c == cat { vec![name.clone()] } else { vec![] };
                jobs.push((name.clone(), cat, (one(0), one(1), one(2))));
                let with = |c: usize, l: &Vec<String>| if c == cat { vec![name.clone()] } else { vec![l[k % l.len()].clone()] };
                jobs.push((name.clone(), cat, (with(0, &all.0), with(1, &all.1), with(2, &all.2))));
                // ... together with every other pattern of its own category, and with all 30 patterns
                let own = |c: usize, l: &Vec<String>| if c == cat { l.clone() } else { vec![] };
                jobs.push((name.clone(), cat, (own(0, &all.0), own(1, &all.1), own(2, &all.2))));
                if k % 4 == 0 {
                    jobs.push((name.clone(), cat, (all.0.clone(), all.1.clone(), all.2.clone())));
                }
            }
        }
        let res = util::par_map(jobs.len(), |j| {
            let (_, _, (o, v, q)) = &jobs[j];
            let cwd = root.join(format!("cwd{}", j));
            std::fs::create_dir_all(&cwd).unwrap();
            crate::binx::write_toml(&cwd.join("cfg.toml"), proj.to_str().unwrap(), o, v, q);
            // "however many times the analysis is repeated": every third job is the SECOND run of the same command in its
            // working directory, every other third follows a run with all 30 patterns in the same working directory
            match j % 3 {
                0 => {
                    let _ = crate::binx::run_bin(&bin, &cwd, &["--toml", "cfg.toml"]);
                }
                1 => {
                    crate::binx::write_toml(&cwd.join("all.toml"), proj.to_str().unwrap(), &all.0, &all.1, &all.2);
                    let _ = crate::binx::run_bin(&bin, &cwd, &["--toml", "all.toml"]);
                }
                _ => {}
            }
            let out = crate::binx::run_bin(&bin, &cwd, &["--toml", "cfg.toml"]);
            let rep = std::fs::read_to_string(cwd.join("solstat_report.md")).ok();
            (out.code, rep)
        });
        for (jidx, ((name, cat, sel), (code, rep))) in jobs.iter().zip(res).enumerate() {
            dir_states += 1;
            let d = match detectors.iter().position(|d| d.name == name.as_str()) {
                Some(d) => d,
                None => continue,
            };
            let pat = match cat {
                0 => crate::report::Pat::O(opt::get_all_optimizations().iter().position(|x| *x == opt::str_to_optimization(name)).unwrap()),
                1 => crate::report::Pat::V(vul::get_all_vulnerabilities().iter().position(|x| *x == vul::str_to_vulnerability(name)).unwrap()),
                _ => crate::report::Pat::Q(qa::get_all_qa().iter().position(|x| *x == qa::str_to_qa(name)).unwrap()),
            };
            let mut want: Vec<(String, i64)> = Vec::new();
            for (f, (fname, _)) in fs.iter().enumerate() {
                if let Some(ls) = r0.get(&(f, detectors[d].name)) {
                    for l in ls {
                        want.push((format!("{}.sol", fname), *l as i64));
                    }
                }
            }
            for &f in &twice {
                if let Some(ls) = r0.get(&(f, detectors[d].name)) {
                    for l in ls {
                        want.push(("Token.sol".to_string(), *l as i64));
                    }
                }
            }
            want.sort();
            let got: Option<Vec<(String, i64)>> = rep.as_ref().map(|r| {
                let mut g = crate::report::parse_report(r, &tb).entries.get(&pat).cloned().unwrap_or_default();
                for e in g.iter_mut() {
                    e.0 = fsx::base_name(&e.0);
                }
                g.sort();
                g
            });
            if !crate::binx::completed(code) || got.as_ref() != Some(&want) {
                run.violation(Violation {
                    site: format!("binary:{}:entries-depend-on-co-selected-patterns", name),
                    input: format!(
                        "configuration optimizations={:?} vulnerabilities={:?} qa={:?} on {}; {}",
                        sel.0,
                        sel.1,
                        sel.2,
                        fsx::describe(&tree),
                        match jidx % 3 {
                            0 => "second run of this command in its working directory",
                            1 => "run after a run with all 30 patterns in the same working directory",
                            _ => "single run in a fresh working directory",
                        }
                    ),
                    expected: format!("the entries of {} are those of each file analysed alone: {:?}", name, want),
                    observed: format!("exit {:?}; entries {:?}", code, got),
                    size: sel.0.len() + sel.1.len() + sel.2.len(),
                    unit_test: String::new(),
                    extra: json!({}),
                });
            }
        }
        let _ = std::fs::remove_dir_all(&root);
    } else {
        run.machinery("SOLSTAT_BIN (unhooked binary) not found".into());
    }
    eprintln!("[C15 phase] before 'threads under a baton': {:.1}s", t_phase.elapsed().as_secs_f64());
    // ---------------------------------------------------------------- threads under a baton
    let reduced: Vec<Call> = {
        let pick = ["solidity_math", "increment_decrement", "floating_pragma", "short_revert_string", "constructor_order", "pack_storage_variables", "unprotected_selfdestruct", "safe_math_pre_080"];
        let mut v = Vec::new();
        for f in 0..fs.len().min(4) {
            for (d, det) in detectors.iter().enumerate() {
                if pick.contains(&det.name) {
                    v.push(Call { f, d, fileno: 0 });
                }
            }
        }
        v
    };
    let mut schedules = 0u64;
    let mut thread_calls = 0u64;
    // all interleavings of per-thread call lists, as sequences of thread ids
    fn interleavings(lens: &[usize]) -> Vec<Vec<usize>> {
        fn rec(rem: &mut Vec<usize>, cur: &mut Vec<usize>, out: &mut Vec<Vec<usize>>) {
            if rem.iter().all(|x| *x == 0) {
                out.push(cur.clone());
                return;
            }
            for t in 0..rem.len() {
                if rem[t] > 0 {
                    rem[t] -= 1;
                    cur.push(t);
                    rec(rem, cur, out);
                    cur.pop();
                    rem[t] += 1;
                }
            }
        }
        let mut out = Vec::new();
        rec(&mut lens.to_vec(), &mut Vec::new(), &mut out);
        out
    }
    let mut configs: Vec<Vec<Vec<Call>>> = Vec::new();
    for (i, a) in reduced.iter().enumerate() {
        for (j, b) in reduced.iter().enumerate() {
            if !(a.f == b.f || a.d == b.d || a.f / 2 == b.f / 2) {
                continue;
            }
            if tier == Tier::Quick && (i + j) % 3 != 0 {
                continue;
            }
            configs.push(vec![vec![*a, *b], vec![*b, *a]]);
            configs.push(vec![vec![*a], vec![*b], vec![*a]]);
            configs.push(vec![vec![*a, *b], vec![*a]]);
        }
    }
    let tres = util::par_map(configs.len(), |ci| {
        let cfg = &configs[ci];
        let lens: Vec<usize> = cfg.iter().map(|l| l.len()).collect();
        let mut vs = Vec::new();
        let mut sched_n = 0u64;
        let mut calls = 0u64;
        for sched in interleavings(&lens) {
            sched_n += 1;
            // baton: position in the schedule; a thread runs its next call when sched[pos] == its id
            let baton = Arc::new((Mutex::new(0usize), Condvar::new()));
            let results: Vec<Vec<Result<Lines, String>>> = std::thread::scope(|s| {
                let mut hs = Vec::new();
                for (tid, list) in cfg.iter().enumerate() {
                    let baton = baton.clone();
                    let sched = sched.clone();
                    let fs = &fs;
                    let detectors = &detectors;
                    hs.push(s.spawn(move || {
                        let mut out = Vec::new();
                        for c in list {
                            let (m, cv) = &*baton;
                            let mut pos = m.lock().unwrap();
                            while sched[*pos] != tid {
                                pos = cv.wait(pos).unwrap();
                            }
                            // run the call while holding the baton: exactly one call executes at a time
                            out.push(do_call(*c, fs, detectors));
                            *pos += 1;
                            cv.notify_all();
                            if *pos >= sched.len() {
                                break;
                            }
                        }
                        out
                    }));
                }
                hs.into_iter().map(|h| h.join().unwrap()).collect()
            });
            for (tid, list) in cfg.iter().enumerate() {
                for (k, c) in list.iter().enumerate() {
                    calls += 1;
                    if let Some(r) = results[tid].get(k) {
                        if mismatch(*c, r, &r0, &detectors) {
                            vs.push(Violation {
                                site: format!("threads:{}:result-depends-on-interleaving", detectors[c.d].name),
                                input: format!("threads {:?} schedule {:?}", cfg.iter().map(|l| l.iter().map(|c| describe(*c)).collect::<Vec<_>>()).collect::<Vec<_>>(), sched),
                                expected: format!("{:?}", r0.get(&(c.f, detectors[c.d].name))),
                                observed: format!("thread {} call {} returned {:?}", tid, k, r),
                                size: sched.len(),
                                unit_test: String::new(),
                                extra: json!({}),
                            });
                        }
                    }
                }
            }
        }
        (vs, sched_n, calls)
    });
    for (vs, s, c) in tres {
        schedules += s;
        thread_calls += c;
        run.merge_violations(vs);
    }

    eprintln!("[C15 phase] before 'free-running stress (sampled, labelled)': {:.1}s", t_phase.elapsed().as_secs_f64());
    // ---------------------------------------------------------------- free-running stress (sampled, labelled)
    let rounds = if tier == Tier::Quick { 400 } else { 3000 };
    let stress_dets: Vec<usize> = detectors.iter().enumerate().filter(|(_, d)| ["solidity_math", "increment_decrement", "short_revert_string", "optimal_comparison"].contains(&d.name)).map(|(i, _)| i).collect();
    let bad: Mutex<Vec<Violation>> = Mutex::new(Vec::new());
    let stress_calls = std::sync::atomic::AtomicU64::new(0);
    std::thread::scope(|s| {
        for t in 0..4usize {
            let fs = &fs;
            let detectors = &detectors;
            let r0 = &r0;
            let bad = &bad;
            let stress_dets = &stress_dets;
            let stress_calls = &stress_calls;
            s.spawn(move || {
                for r in 0..rounds {
                    let c = Call { f: (t + r) % fs.len().min(4), d: stress_dets[(t + r / 2) % stress_dets.len()], fileno: 0 };
                    let got = do_call(c, fs, detectors);
                    stress_calls.fetch_add(1, std::sync::atomic::Ordering::Relaxed);
                    if mismatch(c, &got, r0, detectors) {
                        let mut b = bad.lock().unwrap();
                        if b.len() < 5 {
                            b.push(Violation {
                                site: format!("threads-free-running:{}:result-differs-under-concurrency", detectors[c.d].name),
                                input: format!("4 unscheduled threads; call {:?}", (fs[c.f].0.clone(), detectors[c.d].name)),
                                expected: format!("{:?}", r0.get(&(c.f, detectors[c.d].name))),
                                observed: format!("{:?}", got),
                                size: 4,
                                unit_test: String::new(),
                                extra: json!({"sampled": true}),
                            });
                        }
                    }
                }
            });
        }
    });
    let stress_n = stress_calls.load(std::sync::atomic::Ordering::Relaxed);
    for v in bad.into_inner().unwrap() {
        run.violation(v);
    }

    run.set("states", histories.len() as u64 + dir_states + schedules);
    run.set("transitions", hist_calls + dir_states * 3 + thread_calls);
    run.set("traces_validated_against_impl", baseline_calls);
    run.set("evaluations", hist_calls + dir_states * 3 + thread_calls + stress_n);
    run.set("distinct_nontrivial", nontrivial);
    run.set("baseline_fresh_process_calls", baseline_calls);
    run.set("histories", histories.len() as u64);
    run.set("directory_states", dir_states);
    run.set("thread_schedules_exhaustive", schedules);
    run.set("sampled_extras", json!({"free_running_thread_calls": stress_n, "note": "sampled: 4 unscheduled OS threads; can only add violations"}));
    run.set(
        "rule",
        "baseline R0(file, pattern) = result of that single call in a fresh subprocess; states = (a) all call histories of length 2 (thorough: also length 3 over calls sharing a file or pattern) over files x 30 patterns x file numbers, each history on a fresh OS thread, files including pairs of equal byte length with different line layouts; (b) directories built from 1..3 files with the target at every listing position, in sibling sub-directories or not, under several orders / co-selections of patterns (seam); (c) every call-level interleaving of 2 and 3 baton-scheduled OS threads (2+2, 1+1+1, 2+1 calls); every result must equal R0; non-trivial = baseline entries with a non-empty result",
    );
    run.set("bound_completed", if tier == Tier::Quick { "histories of length 2; 5 files; directories of <= 2 files" } else { "histories of length 3; 6 files; directories of <= 3 files" });
    run.set("samples", json!(histories.iter().step_by(histories.len() / 3 + 1).take(3).map(|h| h.iter().map(|c| describe(*c)).collect::<Vec<_>>()).collect::<Vec<_>>()));
    run.finish()
}
