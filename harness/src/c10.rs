//! C10 — packing suggestions are sound w.r.t. the storage-slot model (DESIGN.md section 7, C10).

use crate::corpus::Tier;
use crate::csem::{absorb, require_must};
use crate::dets;
use crate::ev::{Run, Violation};
use crate::refdet::{self, Mode};
use crate::synth::render_l1;
use crate::util;
use serde_json::json;
use solang_parser::pt;
use solstat::analyzer::utils::{get_type_size, storage_slots_used};

/// every spelling of an elementary type and of the non-elementary kinds, with its size in bits
pub fn spellings() -> Vec<(String, u32)> {
    let mut v: Vec<(String, u32)> = Vec::new();
    for n in (8..=256).step_by(8) {
        v.push((format!("uint{}", n), n));
        v.push((format!("int{}", n), n));
    }
    for n in 1..=32u32 {
        v.push((format!("bytes{}", n), 8 * n));
    }
    v.push(("uint".into(), 256));
    v.push(("int".into(), 256));
    v.push(("bool".into(), 8));
    v.push(("address".into(), 160));
    v.push(("address payable".into(), 160));
    v.push(("byte".into(), 8));
    v.push(("string".into(), 256));
    v.push(("bytes".into(), 256));
    v.push(("mapping ( address => uint8 )".into(), 256));
    v.push(("function ( uint8 ) external returns ( bool )".into(), 256));
    v.push(("UserT".into(), 256));
    v.push(("L . UserT".into(), 256));
    v.push(("uint8 [ ]".into(), 256));
    v.push(("uint8 [ 3 ]".into(), 256));
    v.push(("bool [ ] [ ]".into(), 256));
    v
}

fn spelling_for(size: u32, rot: usize) -> String {
    // all spellings of that size, rotated
    let mut opts: Vec<String> = vec![format!("uint{}", size), format!("int{}", size), format!("bytes{}", size / 8)];
    if size == 8 {
        opts.push("bool".into());
        opts.push("byte".into());
    }
    if size == 160 {
        opts.push("address".into());
        opts.push("address payable".into());
    }
    if size == 256 {
        opts.push("uint".into());
        opts.push("string".into());
        opts.push("UserT".into());
        opts.push("mapping ( address => uint8 )".into());
        opts.push("uint8 [ ]".into());
    }
    opts[rot % opts.len()].clone()
}

fn elementary_256(s: &str) -> bool {
    !(s.starts_with("mapping") || s == "UserT" || s.contains('['))
}

pub fn run(tier: Tier) -> i32 {
    util::quiet();
    let mut run = Run::new("C10", if tier == Tier::Quick { "quick" } else { "thorough" });

    // ---------------------------------------------------------------- (i) type sizes
    let sp = spellings();
    let mut size_calls = 0u64;
    for (s, want) in &sp {
        let text = format!("contract C {{ {} v ; }}", s);
        let su = match solang_parser::parse(&text, 0) {
            Ok((su, _)) => su,
            Err(_) => {
                run.machinery(format!("type spelling does not parse: {}", s));
                continue;
            }
        };
        let mut tyexpr = None;
        if let pt::SourceUnitPart::ContractDefinition(cd) = &su.0[0] {
            if let pt::ContractPart::VariableDefinition(vd) = &cd.parts[0] {
                tyexpr = Some(vd.ty.clone());
            }
        }
        let e = match tyexpr {
            Some(e) => e,
            None => {
                run.machinery(format!("no variable definition found for spelling {}", s));
                continue;
            }
        };
        size_calls += 1;
        let got = util::guarded(|| get_type_size(e.clone()));
        if got != Ok(*want as u16) {
            run.violation(Violation {
                site: format!("get_type_size:{}", s.split(|c: char| c.is_ascii_digit() || c == ' ').next().unwrap_or(s)),
                input: text.clone(),
                expected: format!("{} bits", want),
                observed: format!("{:?}", got),
                size: text.len(),
                unit_test: String::new(),
                extra: json!({}),
            });
        }
    }

    // ---------------------------------------------------------------- (ii) slot counter
    let sizes: Vec<u16> = (1..=32).map(|k| 8 * k as u16).collect();
    let max_len = if tier == Tier::Quick { 4 } else { 5 };
    // enumerate by first two elements in parallel
    let prefixes: Vec<Vec<u16>> = {
        let mut p = vec![vec![]];
        for a in &sizes {
            p.push(vec![*a]);
            for b in &sizes {
                p.push(vec![*a, *b]);
            }
        }
        p
    };
    let res = util::par_map(prefixes.len(), |i| {
        let pre = &prefixes[i];
        let mut calls = 0u64;
        let mut bad: Vec<Vec<u16>> = Vec::new();
        let mut distinct = [false; 8];
        let mut check = |seq: &[u16]| {
            calls += 1;
            let want = refdet::slots(&seq.iter().map(|x| *x as u32).collect::<Vec<_>>());
            let got = util::guarded(|| storage_slots_used(seq.to_vec()));
            if (want as usize) < 8 {
                distinct[want as usize] = true;
            }
            if got != Ok(want) && bad.len() < 3 {
                bad.push(seq.to_vec());
            }
        };
        if pre.len() < 2 {
            check(pre);
        } else {
            // all extensions of the 2-prefix up to max_len
            let mut stack: Vec<Vec<u16>> = vec![pre.clone()];
            while let Some(s) = stack.pop() {
                check(&s);
                if s.len() < max_len {
                    for a in &sizes {
                        let mut t = s.clone();
                        t.push(*a);
                        stack.push(t);
                    }
                }
            }
        }
        (calls, bad, distinct)
    });
    let mut slot_calls = 0u64;
    let mut outcomes = [false; 8];
    for (c, bad, d) in res {
        slot_calls += c;
        for k in 0..8 {
            outcomes[k] |= d[k];
        }
        for b in bad {
            let want = refdet::slots(&b.iter().map(|x| *x as u32).collect::<Vec<_>>());
            let got = util::guarded(|| storage_slots_used(b.clone()));
            run.violation(Violation {
                site: format!("storage_slots_used:len{}", b.len()),
                input: format!("{:?}", b),
                expected: format!("{} slots (consecutive items share a slot while they fit in 256 bits)", want),
                observed: format!("{:?}", got),
                size: b.len(),
                unit_test: format!("#[test]\nfn replay() {{\n    assert_eq!(solstat::analyzer::utils::storage_slots_used(vec!{:?}), {});\n}}\n", b, want),
                extra: json!({}),
            });
        }
    }

    // long sequences (the counter must not depend on the number of members)
    for (prefix, n) in [(vec![256u16], 255usize), (vec![256], 256), (vec![256], 257), (vec![128, 256, 128], 253), (vec![200, 56, 200, 56], 253), (vec![8], 1000), (vec![248, 8], 700), (vec![256], 70000)] {
        let mut seq: Vec<u16> = Vec::new();
        if prefix.len() == 1 {
            seq = vec![prefix[0]; n];
        } else if prefix.len() == 2 {
            for k in 0..n {
                seq.push(prefix[k % 2]);
            }
        } else {
            seq.extend(prefix.iter());
            seq.extend(std::iter::repeat(256u16).take(n));
        }
        slot_calls += 1;
        let want = refdet::slots(&seq.iter().map(|x| *x as u32).collect::<Vec<_>>());
        let got = util::guarded(|| storage_slots_used(seq.clone()));
        if got != Ok(want) {
            run.violation(Violation {
                site: format!("storage_slots_used:long:{}", seq.len()),
                input: format!("{:?} followed by {} more members ({} in total)", &seq[..seq.len().min(6)], seq.len().saturating_sub(6), seq.len()),
                expected: format!("{} slots", want),
                observed: format!("{:?}", got),
                size: seq.len(),
                unit_test: String::new(),
                extra: json!({}),
            });
        }
    }

    // ---------------------------------------------------------------- (iii) detectors on parsed contracts / structs
    let ds = dets::by_names(&["pack_storage_variables", "pack_struct_variables"]);
    if ds.len() != 2 {
        run.machinery("pack detectors not addressable by name".into());
    }
    let mut seqs: Vec<Vec<u32>> = vec![vec![]];
    let all: Vec<u32> = (1..=32).map(|k| 8 * k).collect();
    let reduced: Vec<u32> = vec![8, 16, 32, 64, 96, 128, 160, 192, 224, 240, 248, 256];
    for a in &all {
        seqs.push(vec![*a]);
        for b in &all {
            seqs.push(vec![*a, *b]);
            for c in &all {
                seqs.push(vec![*a, *b, *c]);
            }
        }
    }
    let four: &Vec<u32> = if tier == Tier::Quick { &reduced } else { &all };
    for a in four {
        for b in four {
            for c in four {
                for d in four {
                    seqs.push(vec![*a, *b, *c, *d]);
                }
            }
        }
    }
    if tier == Tier::Thorough {
        for a in &reduced {
            for b in &reduced {
                for c in &reduced {
                    for d in &reduced {
                        for e in &reduced {
                            seqs.push(vec![*a, *b, *c, *d, *e]);
                        }
                    }
                }
            }
        }
    }
    let items: Vec<(String, String, Vec<usize>)> = util::par_map(seqs.len(), |i| {
        let s = &seqs[i];
        let mut toks: Vec<String> = "pragma solidity 0.8.19 ;".split(' ').map(|x| x.to_string()).collect();
        let fields = |rot: usize, prefix: &str, only_elementary: bool| -> Vec<String> {
            let mut v = Vec::new();
            for (k, sz) in s.iter().enumerate() {
                let mut sp = spelling_for(*sz, rot + k);
                if only_elementary && !elementary_256(&sp) {
                    sp = "uint256".into();
                }
                v.extend(sp.split(' ').map(|x| x.to_string()));
                v.push(format!("{}{}", prefix, k));
                v.push(";".into());
            }
            v
        };
        // configuration A: a contract of state variables; a file-level struct; a struct nested in a contract
        let variant = i % 3;
        // the contract header rotates through the spellings of a contract definition: plain, abstract, with one
        // base, with base arguments and two bases (the property speaks of "a contract" without qualification)
        let header = match (i / 3) % 4 {
            0 => "contract A {",
            1 => "abstract contract A {",
            2 => "contract A is Base {",
            _ => "contract A is Base ( 1 ) , Other {",
        };
        toks.extend(header.split(' ').map(|x| x.to_string()));
        for (k, chunk) in fields(i, "a", false).chunks(1).enumerate() {
            let _ = k;
            toks.extend(chunk.iter().cloned());
        }
        if variant == 1 {
            toks.extend("function f ( ) public payable { } event E ( ) ;".split(' ').map(|x| x.to_string()));
        }
        toks.push("}".into());
        toks.extend(["struct".to_string(), "S".into(), "{".into()]);
        toks.extend(fields(i + 1, "s", false));
        toks.push("}".into());
        toks.extend((if (i / 12) % 2 == 0 { "contract B {" } else { "contract B is A {" }).split(' ').map(|x| x.to_string()));
        if variant == 2 {
            // members interleaved with non-variable members
            let f = fields(i + 2, "b", false);
            let mut k = 0;
            for t in f {
                let end = t == ";";
                toks.push(t);
                if end {
                    toks.extend(format!("event Ev{} ( ) ;", k).split(' ').map(|x| x.to_string()));
                    k += 1;
                }
            }
        }
        toks.extend(["struct".to_string(), "T".into(), "{".into()]);
        toks.extend(fields(i + 3, "t", false));
        toks.push("}".into());
        toks.push("}".into());
        // a struct of the same name in another contract with the members reversed, and one in an interface
        if i % 2 == 0 {
            toks.extend(["library".to_string(), "L2".into(), "{".into(), "struct".into(), "T".into(), "{".into()]);
            let mut rev: Vec<Vec<String>> = Vec::new();
            let f = fields(i + 4, "r", false);
            let mut cur = Vec::new();
            for t in f {
                let end = t == ";";
                cur.push(t);
                if end {
                    rev.push(std::mem::take(&mut cur));
                }
            }
            rev.reverse();
            for r in rev {
                toks.extend(r);
            }
            toks.push("}".into());
            toks.push("}".into());
        } else {
            toks.extend(["interface".to_string(), "I2".into(), "{".into(), "struct".into(), "U".into(), "{".into()]);
            toks.extend(fields(i + 5, "u", false));
            toks.push("}".into());
            toks.push("}".into());
        }
        let (t, o) = render_l1(&toks);
        (format!("sizes:{:?}:variant{}", s, variant), t, o)
    });
    let mut items = items;
    for (label, prefix) in [("packable", vec!["uint128", "uint256", "uint128"]), ("optimal", vec!["uint200", "uint56", "uint200", "uint56"]), ("packable-bools", vec!["bool", "uint256", "bool"]), ("optimal-wide", vec!["uint256"])] {
        for n in [250usize, 253, 254, 255, 256, 300] {
            let mut members = String::new();
            let mut k = 0;
            for t in &prefix {
                members.push_str(&format!("{} m{} ; ", t, k));
                k += 1;
            }
            for _ in 0..n {
                members.push_str(&format!("uint256 m{} ; ", k));
                k += 1;
            }
            let text = format!("pragma solidity 0.8.19 ; contract Long {{ {}}} struct LongS {{ {}}}", members, members);
            let toks: Vec<String> = text.split(' ').filter(|x| !x.is_empty()).map(|x| x.to_string()).collect();
            let (t, o) = render_l1(&toks);
            items.push((format!("long:{}:{}", label, n), t, o));
        }
    }
    // containers without members next to packable and optimal ones, in every order; and the same files with multi-byte
    // characters in a leading comment (byte offsets and character offsets then differ up to the end of the file), the
    // packable container being the last item of the file
    {
        let parts: Vec<(&str, &str)> = vec![
            ("empty-struct", "struct E0 { }"),
            ("empty-contract", "contract E1 { }"),
            ("packable-struct", "struct P0 { uint128 a ; uint256 b ; uint128 c ; }"),
            ("packable-contract", "contract P1 { uint128 a ; uint256 b ; uint128 c ; }"),
            ("optimal-contract", "contract O1 { uint128 a ; uint128 b ; uint256 c ; }"),
            ("contract-with-empty-struct", "contract N1 { struct In { } uint8 a ; uint256 b ; uint8 c ; }"),
            ("interface-fn-only", "interface I1 { function f ( ) external ; }"),
        ];
        for (na, a) in &parts {
            for (nb, b) in &parts {
                for (nc, c) in &parts {
                    if na == nb || nb == nc || na == nc {
                        continue;
                    }
                    for head in ["", "/* \u{a9} \u{fc}n\u{ef}c\u{f6}d\u{e9} \u{65e5}\u{672c}\u{8a9e} \u{1f512}\u{1f512}\u{1f512}\u{1f512} */ "] {
                        let text = format!("pragma solidity 0.8.19 ; {} {} {}", a, b, c);
                        let toks: Vec<String> = text.split(' ').filter(|x| !x.is_empty()).map(|x| x.to_string()).collect();
                        let (t, o) = render_l1(&toks);
                        // no line feed after the last token: the last item ends where the file ends
                        let t = t.trim_end_matches('\n').to_string();
                        let t2 = format!("{}{}", head, t);
                        let o2: Vec<usize> = o.iter().map(|x| x + head.len()).collect();
                        items.push((format!("order:{}:{}:{}:{}", na, nb, nc, if head.is_empty() { "ascii" } else { "multibyte-header" }), t2, o2));
                    }
                    // the same three containers with a whole container per line, and with two containers on ONE line (several
                    // findings can then start on the same line, with a container that has none on the next one)
                    for (ln, breaks) in [("one-per-line", [true, true, true]), ("first-two-on-one-line", [true, false, true]), ("last-two-on-one-line", [true, true, false]), ("all-on-one-line", [true, false, false])] {
                        let groups: Vec<Vec<String>> = vec!["pragma solidity 0.8.19 ;", a, b, c].iter().map(|g| g.split(' ').filter(|x| !x.is_empty()).map(|x| x.to_string()).collect()).collect();
                        let mut text = String::new();
                        let mut offs = Vec::new();
                        for (gi, g) in groups.iter().enumerate() {
                            if gi > 0 {
                                text.push(if breaks[gi - 1] { '\n' } else { ' ' });
                            }
                            for (ti, tk) in g.iter().enumerate() {
                                if ti > 0 {
                                    text.push(' ');
                                }
                                offs.push(text.len());
                                text.push_str(tk);
                            }
                        }
                        text.push('\n');
                        items.push((format!("order:{}:{}:{}:{}", na, nb, nc, ln), text, offs));
                    }
                }
            }
        }
    }
    // a member's name is also used elsewhere in the file — as a constant, an immutable, a plain variable of another size, a struct
    // member, a function, a parameter — before and after the container: the verdict of a container is about its own members
    {
        let others: Vec<(&str, &str)> = vec![
            ("immutable", "contract Other { address immutable NAME ; uint256 filler ; constructor ( ) { NAME = msg . sender ; } }"),
            ("constant-lib", "library Other { uint96 constant NAME = 1000 ; }"),
            ("constant-file", "uint256 constant NAME = 7 ;"),
            ("plain-other-size", "contract Other { uint8 NAME ; }"),
            ("struct-member", "struct Other { uint8 NAME ; uint256 filler ; uint8 last ; }"),
            ("function", "contract Other { function NAME ( uint8 NAME ) external { } }"),
            ("mapping", "contract Other { mapping ( address => uint256 ) NAME ; }"),
        ];
        let bodies: Vec<(&str, &str)> = vec![
            ("packable", "uint128 x ; uint256 y ; uint128 z ;"),
            ("optimal", "address x ; uint96 y ; uint256 z ; bool w ;"),
            ("packable4", "uint64 x ; uint256 y ; uint64 z ; uint128 w ;"),
        ];
        for (on, o) in &others {
            for name in ["x", "y", "z", "w"] {
                let o = o.replace("NAME", name);
                for (bn, b) in &bodies {
                    for (kn, open) in [("contract", "contract B {"), ("struct", "struct B {"), ("nested-struct", "contract Holder { struct B {")] {
                        let close = if kn == "nested-struct" { "} }" } else { "}" };
                        for first in [true, false] {
                            let text = if first { format!("pragma solidity 0.8.19 ; {} {} {} {}", o, open, b, close) } else { format!("pragma solidity 0.8.19 ; {} {} {} {}", open, b, close, o) };
                            let toks: Vec<String> = text.split(' ').filter(|x| !x.is_empty()).map(|x| x.to_string()).collect();
                            let (t, off) = render_l1(&toks);
                            items.push((format!("shared-name:{}:{}:{}:{}:{}", on, name, bn, kn, first), t, off));
                        }
                    }
                }
            }
        }
    }
    let sw = refdet::sweep_texts(&items, &ds, Mode::Semantic);
    require_must(&mut run, &sw, &["pack_storage_variables", "pack_struct_variables"], "size-sequences");
    let sample = json!({"label": items[items.len() / 2].0, "text": items[items.len() / 2].1});
    let programs = sw.programs;
    absorb(&mut run, sw, "size-sequences");
    // absorb() counted programs / detector calls; add the function-level explorations
    run.add("states", slot_calls + size_calls);
    run.add("transitions", slot_calls + size_calls);
    run.add("evaluations", slot_calls + size_calls);
    run.set("slot_counter_sequences", slot_calls);
    run.set("slot_counter_distinct_results", outcomes.iter().filter(|x| **x).count() as u64);
    run.set("type_spellings", size_calls);
    run.set("parsed_files", programs);
    run.set("rule", "(i) every elementary type spelling and every non-elementary kind, parsed from a real declaration, through get_type_size; (ii) storage_slots_used on ALL sequences of length 0..4 (quick) / 0..5 (thorough) over the 32 byte-granular sizes against an independent first-fit model; (iii) pack_storage_variables / pack_struct_variables on parsed files whose contracts and structs (file-level and nested, with interleaved functions/events) realise every size sequence of length <= 3, every length-4 sequence over 12 sizes (quick) / 32 sizes (thorough), length 5 over 12 sizes (thorough), type spellings rotated; oracle: reported => some permutation uses fewer slots, both sort directions save => reported, declared optimal => not reported (brute force over permutations)");
    run.set("samples", json!([sample, {"sequence": [64, 192, 96, 160], "declared_slots": 2, "ascending_slots": 3}]));
    run.set("bound_completed", if tier == Tier::Quick { "slot counter length 4; detectors length 3 full + length 4 over 12 sizes" } else { "slot counter length 5; detectors length 4 full + length 5 over 12 sizes" });
    run.assume("sampled extras beyond length 5 are not part of this run");
    run.finish()
}
