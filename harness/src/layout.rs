//! Layout space Λ (DESIGN.md section 6): token-preserving re-layouts of a program.

pub const SEPS: &[&str] = &[
    " ",
    "\n",
    "\r\n",
    "\t",
    "\n\n  ",
    " /* x++; y = 1 */ ",
    " // selfdestruct(a); b >= c\n",
    " /* é\n */ ",
    " // keccak256(d) * 8 \r\n",
    // a lone carriage return is white space for the lexer and ends a line comment, but it is not a line break
    " \r ",
    " // i++ \r ",
    // a byte-order mark inside a comment (flattened files carry such banners)
    " // File: \u{feff}contracts/C.sol\n",
    // white space beyond blank / tab / CR / LF: vertical tab, form feed, no-break space, ideographic space (one line feed inside)
    "\u{b}\u{c}\u{a0}\n\u{3000}",
    // annotation comments that tools attach a meaning to (NatSpec tags, linter directives): still only comments
    " /// @inheritdoc IVault\n",
    " /** @custom:oz-upgrades-unsafe-allow selfdestruct */ // solhint-disable-next-line\n",
];
/// separators admitted inside a pragma directive (the lexer reads the value as raw text)
pub const WS_SEPS: &[usize] = &[0, 1, 2, 3, 4, 9];
pub const ENDINGS: &[&str] = &["", "\n", "\r\n"];

#[derive(Clone, Debug)]
pub struct Layout {
    /// separator index per gap (n+1 gaps: before token 0, between tokens, after the last token)
    pub gaps: Vec<usize>,
    /// drop the separator next to brackets, commas and semicolons
    pub tight: bool,
    /// drop every separator the lexer does not need to tell two tokens apart (`a.balance`, `x+=1`)
    pub compact: bool,
    pub ending: usize,
    pub label: String,
}

/// gaps that lie inside a pragma directive: gap g sits before token g
pub fn pragma_gaps(toks: &[String]) -> Vec<bool> {
    let n = toks.len();
    let mut v = vec![false; n + 1];
    let mut i = 0;
    while i < n {
        if toks[i] == "pragma" {
            // gaps before the value and before `;` (the lexer reads the value as raw text); the gap between
            // `pragma` and its name is ordinary
            // (a value may consist of several constraints: every gap up to and including the one before `;`)
            let end = (i + 2..n).find(|&k| toks[k] == ";").unwrap_or((i + 3).min(n));
            for g in (i + 2)..=end.min(n) {
                v[g] = true;
            }
            i = end + 1;
        } else {
            i += 1;
        }
    }
    v
}

/// must a separator stay between two adjacent tokens so that the lexer still sees two tokens?
fn needs_separator(a: &str, b: &str) -> bool {
    let la = a.chars().last().unwrap_or(' ');
    let fb = b.chars().next().unwrap_or(' ');
    let word = |c: char| c.is_alphanumeric() || c == '_' || c == '$' || c == '"' || c == '\'';
    let op = |c: char| "+-*/%=<>!&|^~?:.".contains(c);
    if never_merges(a) || never_merges(b) {
        return false;
    }
    (word(la) && word(fb)) || (op(la) && op(fb)) || (la.is_ascii_digit() && fb == '.') || (la == '.' && fb.is_ascii_digit())
}

fn never_merges(t: &str) -> bool {
    matches!(t, "(" | ")" | "[" | "]" | "{" | "}" | "," | ";")
}

pub fn render(toks: &[String], l: &Layout) -> (String, Vec<usize>) {
    let n = toks.len();
    let pg = pragma_gaps(toks);
    let mut s = String::new();
    let mut offs = Vec::with_capacity(n);
    for i in 0..=n {
        let mut sep = SEPS[l.gaps[i]];
        if pg[i] && !WS_SEPS.contains(&l.gaps[i]) {
            sep = " ";
        }
        let drop = !pg[i]
            && ((l.tight && ((i > 0 && i < n && (never_merges(&toks[i - 1]) || never_merges(&toks[i]))) || i == 0 || i == n))
                || (l.compact && (i == 0 || i == n || !needs_separator(&toks[i - 1], &toks[i]))));
        if !drop {
            s.push_str(sep);
        }
        if i < n {
            offs.push(s.len());
            s.push_str(&toks[i]);
        }
    }
    s.push_str(ENDINGS[l.ending]);
    (s, offs)
}

pub fn line_of(text: &str, off: usize) -> i32 {
    1 + text.as_bytes()[..off].iter().filter(|b| **b == b'\n').count() as i32
}

/// deviation 0: uniform layouts x endings, plus tight
pub fn uniform(n: usize) -> Vec<Layout> {
    let mut v = Vec::new();
    for s in 0..SEPS.len() {
        for e in 0..ENDINGS.len() {
            let mut gaps = vec![s; n + 1];
            gaps[0] = 0;
            v.push(Layout { gaps, tight: false, compact: false, ending: e, label: format!("uniform sep{} end{}", s, e) });
        }
    }
    for e in 0..ENDINGS.len() {
        let mut gaps = vec![0; n + 1];
        // no trailing separator at all: the last token ends the file (unterminated last line)
        gaps[n] = 0;
        v.push(Layout { gaps: gaps.clone(), tight: true, compact: false, ending: e, label: format!("tight end{}", e) });
        v.push(Layout { gaps, tight: false, compact: true, ending: e, label: format!("compact end{}", e) });
    }
    // leading white space before the first token: line feeds, CRLF, blank lines, comments
    for s in 1..SEPS.len() {
        let mut gaps = vec![0; n + 1];
        gaps[0] = s;
        v.push(Layout { gaps: gaps.clone(), tight: false, compact: false, ending: 1, label: format!("leading sep{}", s) });
        let mut g2 = vec![1; n + 1];
        g2[0] = s;
        v.push(Layout { gaps: g2, tight: false, compact: false, ending: 0, label: format!("leading sep{} then one token per line", s) });
    }
    v
}

/// deviation 1: default " " everywhere, one gap replaced by each other separator
pub fn single_deviations(n: usize) -> Vec<Layout> {
    let mut v = Vec::new();
    for g in 0..=n {
        for s in 1..SEPS.len() {
            let mut gaps = vec![0; n + 1];
            gaps[g] = s;
            v.push(Layout { gaps, tight: false, compact: false, ending: 0, label: format!("dev1 gap{} sep{}", g, s) });
        }
    }
    v
}

/// deviation 2: all pairs of gaps x pairs of separators (line-breaking separators only on the second
/// axis to keep the space at ~ (n^2/2) * 8 * 4)
pub fn double_deviations(n: usize) -> Vec<Layout> {
    let mut v = Vec::new();
    let second = [1usize, 2, 6, 7, 10];
    for g1 in 0..=n {
        for g2 in (g1 + 1)..=n {
            for s1 in 1..SEPS.len() {
                for &s2 in &second {
                    let mut gaps = vec![0; n + 1];
                    gaps[g1] = s1;
                    gaps[g2] = s2;
                    v.push(Layout { gaps, tight: false, compact: false, ending: 0, label: format!("dev2 gap{}:sep{} gap{}:sep{}", g1, s1, g2, s2) });
                }
            }
        }
    }
    v
}
