//! C04 — analysis never aborts on a file the parser accepts (DESIGN.md section 7, C04).
//!
//! Σ plus the totality alphabets, every program x 30 detectors, in two build profiles (with and
//! without arithmetic overflow checks).  Each profile runs in a child process so that an abort or a
//! stack overflow is observed as an exit status, not as a harness crash.

use crate::corpus::{self, Tier};
use crate::dets::{self, Detector};
use crate::ev::{Run, Violation};
use crate::synth::P::{C, T};
use crate::synth::*;
use crate::util;
use serde_json::{json, Value};
use std::collections::HashSet;
use std::io::Write;

fn in_contract(part: Frag) -> Frag {
    file(vec![pragma(PRAGMA), contract("C", vec![part])])
}
fn in_func(stmt: Frag) -> Frag {
    in_contract(func("f", &["public"], vec![stmt]))
}

fn pow(base: u32, e: u32) -> String {
    // decimal string of base^e
    let mut d: Vec<u32> = vec![1];
    for _ in 0..e {
        let mut carry = 0;
        for x in d.iter_mut() {
            let v = *x * base + carry;
            *x = v % 10;
            carry = v / 10;
        }
        while carry > 0 {
            d.push(carry % 10);
            carry /= 10;
        }
    }
    d.iter().rev().map(|x| char::from_digit(*x, 10).unwrap()).collect()
}

/// texts (not token vectors): the totality alphabets are small hand-shaped programs
pub fn totality_texts(tier: Tier) -> Vec<(String, String)> {
    let mut v: Vec<(String, String)> = Vec::new();
    let wrap_f = |e: &str| format!("pragma solidity 0.8.19;\ncontract C {{\n  uint256[] a;\n  function f(uint256 x) public {{\n    {};\n  }}\n}}\n", e);
    // ---- number literals
    let mut lits: Vec<String> = vec!["0".into(), "1".into(), "7".into(), "2147483648".into(), "4294967295".into(), "4294967296".into()];
    lits.push(pow(2, 64));
    lits.push(pow(2, 128));
    lits.push(pow(2, 255));
    lits.push(pow(2, 256));
    lits.push(pow(10, 80));
    lits.push("00".into());
    lits.push("0008".into());
    let mut forms: Vec<String> = Vec::new();
    for l in &lits {
        forms.push(l.clone());
        if l.len() > 1 {
            forms.push(format!("{}_{}", &l[..1], &l[1..]));
        }
        for e in ["e0", "e1", "e18", "e77", "E2", "e-1", "e-2"] {
            forms.push(format!("{}{}", l, e));
        }
    }
    for h in ["0x0", "0x00", "0x10", "0x00_00", "0x0000_0000", "0xEeeeeEeeeEeEeeEeEeEeeEEEeeeeEeeeeeeeEEeE", "0x100000000000000000000000000000000", "0xffffffffffffffffffffffffffffffff", "0x8000000000000000000000000000000000000000000000000000000000000000", "0xffffffffffffffffffffffffffffffffffffffffffffffffffffffffffffffffff"] {
        forms.push(h.to_string());
    }
    for r in ["0.5", "2.0", "4.0e1", ".5e1", "1.5e-1", "8.00"] {
        forms.push(r.to_string());
    }
    for l in &forms {
        for t in [
            format!("x * {}", l),
            format!("{} * x", l),
            format!("x / {}", l),
            format!("{} / x", l),
            format!("{} * {}", l, l),
            format!("a[{}]", l),
            format!("a[{}] = a[{}] + 1", l, l),
            format!("address({}) == msg.sender", l),
            format!("msg.sender != address({})", l),
            format!("x = {} days", l),
            format!("x /= {} * x", l),
        ] {
            v.push((format!("literal:{}", t), wrap_f(&t)));
        }
    }
    // ---- pairs of literals under every arithmetic operator (constant sub-expressions a detector may try to
    //      evaluate: zero divisors, exact and inexact quotients, differences below zero, huge powers and shifts)
    {
        let small: Vec<String> = vec!["0", "00", "1", "2", "3", "60", "100", "86400", "255", "256", "0x0", "0x10", "0e0", "1e0", "1e1", "2e-1", "0.5", "1_0"]
            .into_iter()
            .map(|x| x.to_string())
            .chain([pow(2, 128), pow(2, 256)])
            .collect();
        for l1 in &small {
            for l2 in &small {
                for t in [
                    format!("x = {} / {} * x", l1, l2),
                    format!("x = x * ({} / {})", l1, l2),
                    format!("x = ({} / {}) * ({} / {})", l1, l2, l2, l1),
                    format!("x = {} % {} * x", l1, l2),
                    format!("x = x / ({} - {})", l1, l2),
                    format!("x = x * {} ** {}", l1, l2),
                    format!("x = x * ({} << {})", l1, l2),
                    format!("x = x / ({} >> {})", l1, l2),
                    format!("x /= {} * {}", l1, l2),
                    format!("a[{} - {}] = a[{} / {}]", l1, l2, l1, l2),
                    format!("address({} - {}) == msg.sender", l1, l2),
                    format!("address({} * {}) != msg.sender", l1, l2),
                ] {
                    v.push((format!("literal-pair:{}", t), wrap_f(&t)));
                }
            }
        }
    }
    // ---- cyclic structure: call graphs, inheritance, types and constants that refer back to themselves
    for (n, t) in [
        ("self-recursive-internal", "contract C { function _r(uint256 n) internal { if (n > 0) _r(n - 1); } function go() public { _r(3); } }\n"),
        ("self-recursive-selfdestruct", "contract C { function _kill(address payable to) internal { _kill(to); selfdestruct(to); } function go() external { _kill(payable(msg.sender)); } }\n"),
        ("mutual-recursion", "contract C { function _even(uint256 n) private returns (bool) { return n == 0 ? true : _odd(n - 1); } function _odd(uint256 n) private returns (bool) { return n == 0 ? false : _even(n - 1); } function go(uint256 n) public returns (bool) { return _even(n); } }\n"),
        ("mutual-recursion-3", "contract C { function _a() internal { _b(); } function _b() internal { _c(); } function _c() internal { _a(); selfdestruct(payable(msg.sender)); } function go() public { _a(); } function go2() external { _c(); } }\n"),
        ("public-self-recursive", "contract C { function f(uint256 n) public returns (uint256) { return n == 0 ? 1 : n * f(n - 1); } }\n"),
        ("recursion-through-this", "contract C { function f(uint256 n) external { if (n > 0) this.f(n - 1); } function g() external { C(address(this)).g(); } }\n"),
        ("recursion-through-modifier", "contract C { modifier m() { g(); _; } function g() public m { } function h() public m m m { g(); } }\n"),
        ("free-recursion", "function fr(uint256 n) pure returns (uint256) { return n == 0 ? 0 : fr(n - 1) + gr(n); } function gr(uint256 n) pure returns (uint256) { return fr(n); } contract C { function go() public { fr(2); } }\n"),
        ("ctor-recursion", "contract C { address owner; constructor() { _init(); } function _init() internal { owner = msg.sender; _init(); } }\n"),
        ("overloads-calling-each-other", "contract C { function _t(uint256 a) internal { _t(a, 1); } function _t(uint256 a, uint256 b) internal { _t(a + b); } function go() public { _t(1); } }\n"),
        ("inherit-self", "contract A is A { function f() public {} }\n"),
        ("inherit-cycle", "contract A is B { function f() public { g(); } } contract B is A { function g() public { f(); } }\n"),
        ("inherit-cycle-3", "contract A is B { uint128 a; uint256 b; uint128 c; } contract B is C { } contract C is A { constructor() { } }\n"),
        ("struct-self", "struct S { S s; uint128 a; uint256 b; uint128 c; } contract C { struct T { T[] t; U u; } struct U { T t; } S s; }\n"),
        ("constant-cycle", "uint256 constant A = B; uint256 constant B = A; contract C { uint256 x = x; uint256 immutable y = y + 1; }\n"),
        ("using-cycle", "library L { using L for L.T; struct T { uint256 v; } function f(T storage t) internal { t.f(); } }\n"),
        ("type-cycle", "type A is uint256; type B is uint256; using {fa} for A global; function fa(A a) pure returns (A) { return fa(a); }\n"),
        ("mapping-self", "contract C { struct S { mapping(uint256 => S) next; } mapping(address => S) m; }\n"),
        ("name-reuse", "contract C { function C() public { } uint256 f; function g(uint256 g) public returns (uint256 C) { C = g; f = g; } event g(uint256 g); error f(uint256 f); }\n"),
        ("import-self", "import \"./self.sol\"; import {C} from \"./self.sol\"; contract C { }\n"),
    ] {
        v.push((format!("cycle:{}", n), format!("pragma solidity 0.8.19;\n{}", t)));
        v.push((format!("cycle-0.4:{}", n), format!("pragma solidity ^0.4.24;\n{}", t)));
        v.push((format!("cycle-nopragma:{}", n), t.to_string()));
    }
    // ---- string literals with escape sequences, well-formed and cut short (the lexer does not validate them), as revert
    //      strings on both sides of 0.8.4, as hashed data and as plain expression
    for esc in [
        "\\n", "\\\\", "\\\"", "\\'", "\\x41", "\\x4", "\\x", "\\u0041", "\\u20", "\\u", "\\u{41}", "\\U0001F512", "\\0", "\\q", "\\\n", "\\xZZ", "\\uD800", "\\uDFFF\\uD800",
        "%s", "{}", "{0}", "\\t\\r\\n", "\u{e9}\\", "\\\u{1f512}",
    ] {
        for (pfx, q) in [("", '"'), ("unicode", '"'), ("", '\''), ("hex", '"')] {
            if pfx == "hex" && !esc.chars().all(|c| c.is_ascii_hexdigit()) {
                continue;
            }
            let close_unsafe = esc.ends_with('\\') && !esc.ends_with("\\\\");
            let body_long = format!("a revert string that is long enough to count {}{}", esc, if close_unsafe { " " } else { "" });
            let body_short = format!("{}{}", esc, if close_unsafe { " " } else { "" });
            for body in [body_short, body_long] {
                let lit = format!("{}{}{}{}", pfx, q, body, q);
                for ver in ["0.8.3", "0.8.19"] {
                    v.push((
                        format!("escape:{}:{}", lit, ver),
                        format!("pragma solidity {};\ncontract C {{\n  function f(bool ok) public {{\n    require(ok, {});\n    bytes32 h = keccak256({});\n    revert({});\n  }}\n}}\n", ver, lit, lit, lit),
                    ));
                }
            }
        }
    }
    // ---- calls without arguments / unusual argument shapes
    for c in [
        "address()",
        "address() == msg.sender",
        "msg.sender != address()",
        "address(0, 1) == msg.sender",
        "address(x) == address()",
        "require()",
        "require(\"only a string\")",
        "require(x > 1 && x < 2)",
        "require(\"s\", x > 1)",
        "keccak256()",
        "selfdestruct()",
        "suicide()",
        "x.add()",
        "x.sub().mul().div()",
        "bytes()",
        "abi.encode()",
        "payable()",
        "payable().transfer()",
        "x.transfer",
        "this.approve",
        "a.length",
        "address(this).balance()",
        "address().balance",
        "payable(msg.sender).balance",
        "msg.sender",
        "selfdestruct(payable(msg.sender))",
        "f{value: 1}()",
        "f{value: 1}",
        "new C()",
        "type(C).name",
        "a[1:2]",
        "a[:]",
        "(x, ) = (1, 2)",
        "(, x) = (1, 2)",
        "() = ()",
        "x = true ? 1 : 2",
        "delete a",
        "++x",
        "x--",
        "unicode\"é\"",
        "hex\"00\" hex\"11\"",
        "\"a\" \"b\"",
        "require(x > 0, \"a\" \"b\")",
        "require(x > 0, unicode\"0123456789012345678901234567890123456789\")",
        "require(x > 0, \"\")",
        "revert(\"s\")",
        "x ** 2 ** 3",
        "1 ether * 2",
        "x * 1 wei",
        "émetteur.transfer(x)",
        "zähler++",
        "é = é + 1",
        "require(é >= 1, \"é\")",
        "ü.add(é)",
    ] {
        v.push((format!("call:{}", c), wrap_f(c)));
    }
    // the same in a constructor (immutable_variables looks at constructor assignments)
    for rhs in ["abi.encode()", "abi.encode", "bytes()", "bytes(\"s\")", "\"s\"", "address()", "f()", "x.y()", "abi.decode(d, (uint256))", "new C()", "1e18", "type(uint256).max"] {
        v.push((
            format!("ctor:{}", rhs),
            format!("pragma solidity 0.8.19;\ncontract C {{\n  uint256 s0;\n  bytes s1;\n  constructor() {{\n    s0 = {};\n    s1 = {};\n  }}\n}}\n", rhs, rhs),
        ));
    }
    // ---- pragma placements and shapes
    let body = "contract C {\n  using SafeMath for uint256;\n  function f(uint256 x) public {\n    require(x > 0, \"0123456789012345678901234567890123456789\");\n    x.add(1);\n  }\n}\n";
    for p in [
        "",
        "pragma solidity 0.8.19;\n",
        "pragma experimental ABIEncoderV2;\n",
        "pragma abicoder v2;\n",
        "pragma experimental ABIEncoderV2;\npragma solidity 0.8.19;\n",
        "pragma solidity 0.8.19;\npragma solidity 0.7.0;\n",
        "pragma solidity 0;\n",
        "pragma solidity 0.8;\n",
        "pragma solidity ^0.8;\n",
        "pragma solidity 0.8.19.1;\n",
        "pragma solidity 0.8.99999999999;\n",
        "pragma solidity 99999999999.8.1;\n",
        "pragma solidity 0.99999999999999999999.1;\n",
        "pragma solidity >=0.4.22 <0.9.0;\n",
        "pragma solidity 0.8.4 || 0.7.6;\n",
        "pragma solidity *;\n",
        "pragma solidity v0.8.0;\n",
        "pragma solidity ^ 0.8.0;\n",
        "pragma solidity é;\n",
        "pragma solidity 0.8..1;\n",
        "pragma solidity 0.8...1;\n",
        "pragma solidity .8.1;\n",
        "pragma solidity 0.8.;\n",
        "pragma solidity 1.2.3.4.5;\n",
        "pragma solidity 00.08.004;\n",
        "pragma solidity -1.-2.-3;\n",
        "pragma solidity 0.8.1 0.8;\n",
        "pragma solidity 0.8 0.8.1;\n",
        "pragma solidity\n0.8.19\n;\n",
        "pragma solidity solidity;\n",
        "pragma x y;\n",
    ] {
        v.push((format!("pragma:{:?}", p), format!("{}{}", p, body)));
        v.push((format!("pragma-after:{:?}", p), format!("{}{}", body, p)));
    }
    // ---- declaration-level shapes
    for (n, t) in [
        ("free", "function g(uint256[] memory p) pure returns (uint256) { return p[0] * 2; }\n"),
        ("free.private", "function _g() private {}\nfunction h() public {}\n"),
        ("filevar", "uint256 constant K = 1;\naddress fv;\n"),
        ("struct", "struct S { uint128 a; uint256 b; uint128 c; }\n"),
        ("struct.empty", "struct S { }\n"),
        ("using.global", "type U is uint256;\nusing {f} for U global;\nfunction f(U u) pure {}\n"),
        ("empty.contract", "contract E { }\ninterface I { }\nlibrary L { }\nabstract contract A { }\n"),
        ("only.semicolons", ";;;\n"),
        ("ctor.only", "contract C { constructor() {} }\n"),
        ("two.ctors", "contract C { function f() public {} constructor() {} constructor() {} }\n"),
        ("modifier.only", "contract C { modifier m() { _; } modifier n; }\n"),
        ("fallbacks", "contract C { fallback() external {} receive() external payable {} function() external {} }\n"),
        ("enum.event.error", "enum E { A } event Ev(uint256 a); error Er(uint256 a);\n"),
        ("import", "import \"a.sol\";\nimport * as A from \"a.sol\";\nimport {X as Y} from \"a.sol\";\n"),
        ("fnvar", "contract C { function() external fp; function(uint256) internal returns (uint256) fq; mapping(address => mapping(uint256 => bool)) m; uint256[][] aa; S s; }\n"),
        ("samename", "contract A { uint256 v; } contract B { uint256 v; function f() public { v = 1; } }\n"),
        ("override", "contract C is B(1), D { uint256 public override(B, D) v; function f() public override(B) onlyOwner m(1) returns (uint256) {} }\n"),
        ("params.unnamed", "contract C { function f(uint256[] memory, bytes memory b, string calldata) public { b = b; } }\n"),
        ("unicode.names", "contract Ü { uint256 private é; uint256 public _ö; function überlauf() internal {} function _ä() public {} constructor() { é = 1; } }\n"),
        ("params.dup", "contract C { function f(bytes memory b, bytes memory b) public { b[0] = b[1]; } constructor(bytes memory c) { c = c; } }\n"),
    ] {
        v.push((format!("decl:{}", n), format!("pragma solidity 0.8.19;\n{}", t)));
        v.push((format!("decl-nopragma:{}", n), t.to_string()));
    }
    // ---- member-size sequences for the packing detectors (every order of a few sizes)
    let sizes = ["bool", "uint64", "uint128", "address", "uint248", "uint256", "bytes31"];
    for a in sizes {
        for b in sizes {
            for c in sizes {
                for d in sizes {
                    let t = format!(
                        "pragma solidity 0.8.19;\nstruct S {{ {} a; {} b; {} c; {} d; }}\ncontract C {{ {} a; {} b; {} c; {} d; }}\n",
                        a, b, c, d, a, b, c, d
                    );
                    v.push((format!("sizes:{}:{}:{}:{}", a, b, c, d), t));
                }
            }
        }
    }
    // ---- counts
    let counts: Vec<usize> = match tier {
        Tier::Quick => vec![0, 1, 2, 3, 127, 128, 255, 256, 257, 300, 1000],
        Tier::Thorough => (0..=300).chain([511, 512, 513, 1000, 1023, 1024, 1025]).collect(),
    };
    for &k in &counts {
        let fns: String = (0..k).map(|i| format!("  function f{}() public {{}}\n", i)).collect();
        v.push((format!("count:functions-before-ctor:{}", k), format!("pragma solidity 0.8.19;\ncontract C {{\n{}  constructor() {{}}\n}}\n", fns)));
        let mods: String = (0..k).map(|i| format!("  modifier m{}() {{ _; }}\n", i)).collect();
        v.push((format!("count:modifiers-before-ctor:{}", k), format!("pragma solidity 0.8.19;\ncontract C {{\n{}  constructor() {{}}\n}}\n", mods)));
        let cs: String = (0..k).map(|i| format!("contract C{} {{ function f() public {{}} constructor() {{}} }}\n", i)).collect();
        v.push((format!("count:contracts:{}", k), format!("pragma solidity 0.8.19;\n{}", cs)));
        let vars: String = (0..k).map(|i| format!("  uint{} v{};\n", 8 * (1 + i % 32), i)).collect();
        v.push((format!("count:statevars:{}", k), format!("pragma solidity 0.8.19;\ncontract C {{\n{}}}\nstruct S {{\n{}}}\n", vars, vars)));
        let wide: String = (0..k).map(|i| format!("  uint256 w{};\n", i)).collect();
        v.push((format!("count:uint256-statevars:{}", k), format!("pragma solidity 0.8.19;\ncontract C {{\n{}}}\nstruct S {{\n{}}}\n", wide, wide)));
        let stmts: String = (0..k).map(|i| format!("    x = x + {};\n", i)).collect();
        v.push((format!("count:statements:{}", k), format!("pragma solidity 0.8.19;\ncontract C {{\n  uint256 x;\n  function f() public {{\n{}  }}\n}}\n", stmts)));
        let args: Vec<String> = (0..k).map(|i| format!("a{}", i)).collect();
        v.push((format!("count:callargs:{}", k), wrap_f(&format!("require({})", args.join(", ")))));
        if k <= 60 {
            // a chain of k operators is nested k deep: the property bounds nesting depth by 64
            v.push((format!("count:callargs-and:{}", k), wrap_f(&format!("require({})", if args.is_empty() { String::new() } else { args.join(" && ") }))));
        }
        let prs: String = (0..k).map(|_| "pragma solidity ^0.8.0;\n".to_string()).collect();
        v.push((format!("count:pragmas:{}", k), format!("{}contract C {{}}\n", prs)));
        let params: Vec<String> = (0..k).map(|i| format!("bytes memory p{}", i)).collect();
        v.push((format!("count:params:{}", k), format!("pragma solidity 0.8.19;\ncontract C {{ function f({}) public {{}} }}\n", params.join(", "))));
    }
    // files without a single definition
    for (nm, t) in [("empty", ""), ("one-line-feed", "\n"), ("blank-lines", "\n\n  \n"), ("line-comment", "// nothing here"), ("line-comment-lf", "// nothing here\n"), ("block-comment", "/* nothing\n here */"), ("blanks-no-lf", "   ")] {
        v.push((format!("nothing:{}", nm), t.to_string()));
    }
    // inputs that are extreme in one dimension (src/scale.rs): widths around 64 / 256, findings around 256 / 1000, line numbers
    // beyond 16 bits, a 70 KB line, string lengths around 256, literal / try / identifier shapes
    for (label, text, _) in crate::scale::width_items(tier == Tier::Thorough)
        .into_iter()
        .chain(crate::scale::line_items(tier == Tier::Thorough))
        .chain(crate::scale::string_items(false))
        .chain(crate::scale::shape_items())
    {
        // chains deeper than 64 are outside this property's quantifier (nesting depth <= 64): C05 / C07 / C02 judge them
        if label.starts_with("scale:else-if-chain") {
            continue;
        }
        v.push((label, text));
    }
    v
}

/// nesting family: depth 1..64 of each nesting construct (run sequentially on a large stack)
pub fn nesting_texts(tier: Tier) -> Vec<(String, String)> {
    let mut v = Vec::new();
    let depths: Vec<usize> = match tier {
        Tier::Quick => vec![1, 2, 8, 32, 63, 64],
        Tier::Thorough => (1..=64).collect(),
    };
    let wrap_f = |e: &str| format!("pragma solidity 0.8.19;\ncontract C {{\n  uint256 s0;\n  function f(uint256 x) public {{\n    {}\n  }}\n}}\n", e);
    for &d in &depths {
        let rep = |a: &str, b: &str, mid: &str| format!("{}{}{}", a.repeat(d), mid, b.repeat(d));
        v.push((format!("nest:paren:{}", d), wrap_f(&format!("{};", rep("(", ")", "x * 2")))));
        v.push((format!("nest:block:{}", d), wrap_f(&rep("{ ", " }", "s0 = x++;"))));
        v.push((format!("nest:unchecked:{}", d), wrap_f(&rep("unchecked { ", " }", "++x;"))));
        v.push((format!("nest:not:{}", d), wrap_f(&format!("{}x;", "!".repeat(d)))));
        v.push((format!("nest:preinc:{}", d), wrap_f(&format!("{}x;", "++ ".repeat(d)))));
        v.push((format!("nest:subscript:{}", d), wrap_f(&format!("x{} = 1;", "[0]".repeat(d)))));
        v.push((format!("nest:index:{}", d), wrap_f(&format!("{};", rep("a[", "]", "x")))));
        v.push((format!("nest:if:{}", d), wrap_f(&format!("{} s0 = 1;", "if (x >= 1) ".repeat(d)))));
        v.push((format!("nest:ifelse:{}", d), wrap_f(&format!("{} s0 = 1; {}", "if (x >= 1) {".repeat(d), "} else { x--; }".repeat(d)))));
        v.push((format!("nest:ternary:{}", d), wrap_f(&format!("x = {} 3;", "x == 0 ? 1 : ".repeat(d)))));
        v.push((format!("nest:call:{}", d), wrap_f(&format!("{};", rep("keccak256(", ")", "x")))));
        v.push((format!("nest:mul:{}", d), wrap_f(&format!("x = x{};", " / 2 * 4".repeat(d)))));
        v.push((format!("nest:pow:{}", d), wrap_f(&format!("x = x{};", " ** 2".repeat(d)))));
        v.push((format!("nest:for:{}", d), wrap_f(&format!("{} x++;", "for (uint256 i = 0; i < a.length; i++) ".repeat(d)))));
        v.push((format!("nest:member:{}", d), wrap_f(&format!("x{};", ".transfer".repeat(d)))));
        v.push((format!("nest:try:{}", d), wrap_f(&format!("{} x++; {}", "try this.f(x) { } catch {".repeat(d), "}".repeat(d)))));
        v.push((format!("nest:mapping:{}", d), format!("pragma solidity 0.8.19;\ncontract C {{ {}uint256{} m; }}\n", "mapping(address => ".repeat(d), ")".repeat(d))));
        v.push((format!("nest:array:{}", d), format!("pragma solidity 0.8.19;\ncontract C {{ uint256{} m; }}\n", "[]".repeat(d))));
    }
    v
}

fn sweep(texts: &[(String, String)], detectors: &[Detector], profile: &str, sequential: bool) -> (Vec<Value>, u64, u64, HashSet<u64>) {
    let one = |i: usize| {
        let (label, text) = &texts[i];
        let mut vs = Vec::new();
        let mut calls = 0u64;
        let mut outcomes = Vec::new();
        if solang_parser::parse(text, 0).is_err() {
            return (vs, 0u64, outcomes, false);
        }
        for d in detectors {
            if sequential || std::env::var("MC_SEQUENTIAL").is_ok() {
                eprintln!("BEGIN {} {}", d.name, label);
            }
            calls += 1;
            match dets::run_guarded(d, text, 0) {
                Ok(s) => outcomes.push(util::fnv(&format!("{}:{:?}", d.name, s))),
                Err(m) => vs.push(json!({
                    "site": format!("{}:panic:{}", d.name, m.chars().take(48).collect::<String>()),
                    "input": text,
                    "expected": "the detector returns a (possibly empty) set of lines",
                    "observed": format!("panic in profile {}: {}", profile, m),
                    "size": text.len(),
                    "label": label,
                    "detector": d.name,
                })),
            }
        }
        (vs, calls, outcomes, true)
    };
    let sequential = sequential || std::env::var("MC_SEQUENTIAL").is_ok();
    let res: Vec<_> = if sequential { (0..texts.len()).map(one).collect() } else { util::par_map(texts.len(), one) };
    let mut vs = Vec::new();
    let mut calls = 0;
    let mut accepted = 0;
    let mut outcomes = HashSet::new();
    for (v, c, o, ok) in res {
        vs.extend(v);
        calls += c;
        if ok {
            accepted += 1;
        }
        outcomes.extend(o);
    }
    (vs, calls, accepted, outcomes)
}

/// child mode: run everything in this build profile, print one JSON document on stdout
fn on_hang(det: &str, src: &str) {
    // a call that is merely slow under load is not a hang: the verdict needs the same call, alone in a fresh
    // process, not to end within 60 s either
    match dets::ends_in_fresh_process(det, src, 60) {
        Some(true) => {
            eprintln!("note: {} needed more than 10 s in the loaded sweep but ends when run alone; not a hang", det);
            return;
        }
        Some(false) => {}
        None => {
            eprintln!("MACHINERY: cannot confirm a suspected hang of {}", det);
            std::process::exit(2);
        }
    }
    let doc = json!({
        "profile": std::env::var("MC_PROFILE").unwrap_or_default(),
        "partial": true,
        "violations": [{
            "site": format!("{}:hang", det),
            "input": src,
            "expected": "the detector terminates and returns a (possibly empty) set of lines",
            "observed": format!("no return within 10 s in the sweep nor within 60 s alone in a fresh process (profile {})", std::env::var("MC_PROFILE").unwrap_or_default()),
            "size": src.len(),
            "label": "watchdog",
            "detector": det,
        }],
        "calls": 0, "accepted_programs": 0, "distinct_outcomes": 0, "detectors": 30, "totality_rejected_by_parser": 0,
    });
    println!("{}", doc);
    std::process::exit(0);
}

pub fn child(tier: Tier, profile: &str) -> i32 {
    std::env::set_var("MC_NO_WATCHDOG", "1");
    std::env::set_var("MC_PROFILE", profile);
    util::quiet();
    dets::start_watchdog(10, on_hang);
    let detectors = dets::all();
    let mut vs: Vec<Value> = Vec::new();
    let mut calls = 0u64;
    let mut accepted = 0u64;
    let mut outcomes: HashSet<u64> = HashSet::new();
    let mut sigma_n = 0usize;
    corpus::stream(tier, &mut |chunk| {
        let sigma: Vec<(String, String)> = chunk.iter().map(|p| (p.tag.clone(), render_l1(&p.toks).0)).collect();
        drop(chunk);
        sigma_n += sigma.len();
        let (v1, c1, a1, o1) = sweep(&sigma, &detectors, profile, false);
        // keep at most a few witnesses per site
        for v in v1 {
            let site = v["site"].as_str().unwrap_or("").to_string();
            let same = vs.iter().filter(|x| x["site"].as_str() == Some(site.as_str())).count();
            if same < 3 {
                vs.push(v);
            }
        }
        calls += c1;
        accepted += a1;
        outcomes.extend(o1);
    });
    let tot = totality_texts(tier);
    let (v2, c2, a2, o2) = sweep(&tot, &detectors, profile, false);
    vs.extend(v2);
    calls += c2;
    accepted += a2;
    outcomes.extend(o2);
    let rejected_tot = tot.len() as u64 - a2;
    // nesting family sequentially on a large stack; progress markers on stderr
    let nest = nesting_texts(tier);
    let dets2 = detectors.clone();
    let prof = profile.to_string();
    let h = std::thread::Builder::new().stack_size(64 << 20).spawn(move || sweep(&nest, &dets2, &prof, true)).unwrap();
    let (v3, c3, a3, o3) = h.join().unwrap();
    vs.extend(v3);
    calls += c3;
    accepted += a3;
    outcomes.extend(o3);
    let doc = json!({
        "profile": profile,
        "violations": vs,
        "calls": calls,
        "accepted_programs": accepted,
        "sigma_programs": sigma_n,
        "totality_programs": tot.len(),
        "totality_rejected_by_parser": rejected_tot,
        "distinct_outcomes": outcomes.len(),
        "detectors": detectors.len(),
    });
    let out = std::io::stdout();
    let mut lock = out.lock();
    let _ = writeln!(lock, "{}", doc);
    0
}

pub fn run(tier: Tier) -> i32 {
    let tier_s = if tier == Tier::Quick { "quick" } else { "thorough" };
    let mut run = Run::new("C04", tier_s);
    let me = std::env::current_exe().unwrap();
    let ovf = std::env::var("MC_OVF_BIN").unwrap_or_default();
    let mut profiles: Vec<(String, std::path::PathBuf)> = vec![("release(overflow-checks=off, debug-assertions=off)".to_string(), me)];
    if !ovf.is_empty() && std::path::Path::new(&ovf).exists() {
        profiles.push(("ovf(overflow-checks=on, debug-assertions=on)".to_string(), std::path::PathBuf::from(ovf)));
    } else {
        run.machinery("overflow-checking build of the harness (MC_OVF_BIN) not found".to_string());
    }
    let handles: Vec<_> = profiles
        .iter()
        .map(|(name, path)| {
            let name = name.clone();
            let path = path.clone();
            let tier_s = tier_s.to_string();
            std::thread::spawn(move || {
                let out = std::process::Command::new(&path).args(["C04-child", &tier_s, &name]).output();
                (name, out)
            })
        })
        .collect();
    let mut calls = 0u64;
    let mut accepted = 0u64;
    let mut distinct = 0u64;
    let mut samples = Vec::new();
    for h in handles {
        let (name, out) = h.join().unwrap();
        let out = match out {
            Ok(o) => o,
            Err(e) => {
                run.machinery(format!("cannot start child for profile {}: {}", name, e));
                continue;
            }
        };
        if !out.status.success() {
            // abnormal end: the last BEGIN marker names the detector and program; if the abort happened in
            // the parallel phase (no marker), run the child again sequentially to locate it
            let mut err = String::from_utf8_lossy(&out.stderr).to_string();
            if !err.lines().any(|l| l.starts_with("BEGIN ")) {
                let path = if name.starts_with("ovf") { std::env::var("MC_OVF_BIN").unwrap_or_default() } else { std::env::current_exe().unwrap().to_string_lossy().to_string() };
                if let Ok(o2) = std::process::Command::new(&path).args(["C04-child", tier_s, &name]).env("MC_SEQUENTIAL", "1").output() {
                    err = String::from_utf8_lossy(&o2.stderr).to_string();
                }
            }
            let last = err.lines().filter(|l| l.starts_with("BEGIN ")).last().unwrap_or("").to_string();
            let mut parts = last.splitn(3, ' ');
            let _ = parts.next();
            let det = parts.next().unwrap_or("?").to_string();
            let label = parts.next().unwrap_or("?").to_string();
            run.violation(Violation {
                site: format!("{}:abort", det),
                input: label.clone(),
                expected: "the detector returns".into(),
                observed: format!("process ended with {:?} in profile {} while running {} on {}", out.status, name, det, label),
                size: 0,
                unit_test: String::new(),
                extra: json!({}),
            });
            continue;
        }
        let txt = String::from_utf8_lossy(&out.stdout);
        let doc: Value = match serde_json::from_str(txt.lines().last().unwrap_or("")) {
            Ok(d) => d,
            Err(e) => {
                run.machinery(format!("child {} produced no result: {}", name, e));
                continue;
            }
        };
        if doc["partial"].as_bool() == Some(true) {
            run.set("exhaustive", false);
            run.set(&format!("partial:{}", name), "a detector call did not terminate; the sweep of this profile was cut short at that point");
        }
        calls += doc["calls"].as_u64().unwrap_or(0);
        accepted += doc["accepted_programs"].as_u64().unwrap_or(0);
        distinct = distinct.max(doc["distinct_outcomes"].as_u64().unwrap_or(0));
        run.set(&format!("profile:{}", name), json!({"calls": doc["calls"], "accepted_programs": doc["accepted_programs"], "totality_rejected_by_parser": doc["totality_rejected_by_parser"], "distinct_outcomes": doc["distinct_outcomes"]}));
        if doc["detectors"].as_u64() != Some(30) {
            run.machinery(format!("expected 30 detectors, child saw {}", doc["detectors"]));
        }
        if let Some(vs) = doc["violations"].as_array() {
            for v in vs {
                let det = v["detector"].as_str().unwrap_or("");
                let input = v["input"].as_str().unwrap_or("").to_string();
                run.violation(Violation {
                    site: v["site"].as_str().unwrap_or("").to_string(),
                    input: input.clone(),
                    expected: v["expected"].as_str().unwrap_or("").to_string(),
                    observed: v["observed"].as_str().unwrap_or("").to_string(),
                    size: v["size"].as_u64().unwrap_or(0) as usize,
                    unit_test: dets::by_names(&[det]).first().map(|d| dets::unit_test_for(d, &input, "must not panic")).unwrap_or_default(),
                    extra: json!({"label": v["label"]}),
                });
            }
        }
    }
    // ---- the command-line program itself (release and dev builds; the sweeps above run on 64 MB worker
    //      stacks): every nesting family at the largest depth of the property's bound, one file per construct
    if let Some(bin) = crate::binx::bin_path() {
        let root = crate::report::scratch_dir("c04bin");
        let proj = root.join("proj");
        let cwd = root.join("cwd");
        std::fs::create_dir_all(&proj).unwrap();
        std::fs::create_dir_all(&cwd).unwrap();
        let mut k = 0usize;
        for (label, text) in nesting_texts(Tier::Quick) {
            if label.ends_with(":64") || label.ends_with(":63") {
                k += 1;
                std::fs::write(proj.join(format!("N{:03}.sol", k)), &text).unwrap();
            }
        }
        run.add("binary_nesting_files", k as u64);
        // both build profiles of the program: release, and dev (overflow checks on, unoptimised: much larger stack frames)
        let mut bins: Vec<(&str, String)> = vec![("release", bin.clone())];
        match std::env::var("SOLSTAT_DEV_BIN") {
            Ok(d) if std::path::Path::new(&d).exists() => bins.push(("dev", d)),
            _ => run.machinery("SOLSTAT_DEV_BIN (dev-profile binary) not found".into()),
        }
        for (profile, b) in bins {
            let _ = std::fs::remove_file(cwd.join("solstat_report.md"));
            let out = crate::binx::run_bin(&b, &cwd, &["--path", proj.to_str().unwrap()]);
            let rep = cwd.join("solstat_report.md").exists();
            if !crate::binx::completed(out.code) || !rep {
                run.violation(Violation {
                    site: format!("binary:{}:nesting-64:abort", profile),
                    input: format!("{} files with constructs nested 63 / 64 deep (the nesting family), {} build of the command-line program", k, profile),
                    expected: "the command-line program completes and writes its report".into(),
                    observed: format!("exit {:?}, report written: {}, stderr: {}", out.code, rep, out.stderr),
                    size: k,
                    unit_test: String::new(),
                    extra: json!({}),
                });
            }
        }
        let _ = std::fs::remove_dir_all(&root);
    } else {
        run.machinery("SOLSTAT_BIN (unhooked binary) not found".into());
    }
    for (l, t) in totality_texts(Tier::Quick).into_iter().step_by(400).take(4) {
        samples.push(json!({"label": l, "text": t}));
    }
    run.set("states", accepted);
    run.set("transitions", calls);
    run.set("traces_validated_against_impl", accepted);
    run.set("evaluations", calls);
    run.set("distinct_nontrivial", distinct);
    run.set("rule", "states = parser-accepted programs (Σ families + totality alphabets: literals x operand positions, argument-less calls, pragma placements/shapes, declaration shapes, counts, nesting 1..64), summed over the two build profiles; transitions = detector calls under catch_unwind / child-process exit status; non-trivial = distinct (detector, result) outcomes");
    run.set("samples", json!(samples));
    run.set("bound_completed", if tier == Tier::Quick { "Σ quick; counts {0,1,2,3,127,128,255,256,257,300}; nesting {1,2,8,32,63,64}" } else { "Σ thorough; counts 0..300; nesting 1..64" });
    run.assume("the detector sweeps run on 64 MB thread stacks; the command-line program (release and dev profile) is exercised on the deepest nesting family only");
    run.assume("programs the parser rejects are outside the property's quantifier and are skipped (counted in totality_rejected_by_parser)");
    run.finish()
}
