//! Process-level exploration of the real `solstat` binary (unhooked build): C14 (configuration)
//! and C18 (a run only reads its inputs and writes one report file).  DESIGN.md section 7.

use crate::corpus::Tier;
use crate::ev::{Run, Violation};
use crate::pats;
use crate::report::{self, Pat};
use crate::util;
use serde_json::json;
use solstat::analyzer::optimizations as opt;
use solstat::analyzer::qa;
use solstat::analyzer::vulnerabilities as vul;
use std::collections::{BTreeMap, BTreeSet, HashSet, VecDeque};
use std::path::{Path, PathBuf};

pub struct BinOut {
    pub code: Option<i32>,
    pub stderr: String,
}

pub fn bin_path() -> Option<String> {
    let b = std::env::var("SOLSTAT_BIN").unwrap_or_default();
    if !b.is_empty() && Path::new(&b).exists() {
        Some(b)
    } else {
        None
    }
}

pub fn run_bin(bin: &str, cwd: &Path, args: &[&str]) -> BinOut {
    // A run that does not end within 10 s is repeated once with 120 s: only a run that exceeds both limits
    // (on projects of a few short files) counts as a hang of the binary. A process that cannot be started or
    // waited for is the machinery's problem, never a verdict.
    let first = run_bin_once(bin, cwd, args, 10);
    if first.code.is_none() && first.stderr.starts_with("timeout after") {
        return run_bin_once(bin, cwd, args, 120);
    }
    first
}

fn run_bin_once(bin: &str, cwd: &Path, args: &[&str], limit_secs: u64) -> BinOut {
    let mut attempt = 0;
    let mut child = loop {
        match std::process::Command::new(bin)
            .args(args)
            .current_dir(cwd)
            .env_clear()
            .env("PATH", "/usr/bin:/bin")
            // the environment's idea of the working directory is deliberately a different one (a launcher's)
            .env("PWD", std::env::var("MC_FAKE_PWD").unwrap_or_else(|_| "/".to_string()))
            .env("OLDPWD", "/tmp")
            .env("HOME", "/nonexistent")
            .stdin(std::process::Stdio::null())
            // what the program prints is not part of any property: stdout is discarded, stderr is drained by a thread
            // (a program that prints a lot must not block on a full pipe)
            .stdout(std::process::Stdio::null())
            .stderr(std::process::Stdio::piped())
            .spawn()
        {
            Ok(c) => break c,
            Err(e) => {
                attempt += 1;
                if attempt >= 5 {
                    eprintln!("MACHINERY: cannot start {} in {}: {}", bin, cwd.display(), e);
                    std::process::exit(2);
                }
                std::thread::sleep(std::time::Duration::from_millis(200));
            }
        }
    };
    let reader = child.stderr.take().map(|mut e| {
        std::thread::spawn(move || {
            use std::io::Read;
            let mut kept: Vec<u8> = Vec::new();
            let mut buf = [0u8; 8192];
            loop {
                match e.read(&mut buf) {
                    Ok(0) | Err(_) => break,
                    Ok(n) => {
                        if kept.len() < 4096 {
                            kept.extend_from_slice(&buf[..n.min(4096 - kept.len())]);
                        }
                    }
                }
            }
            kept
        })
    });
    let t0 = std::time::Instant::now();
    let status = loop {
        match child.try_wait() {
            Ok(Some(st)) => break Some(st),
            Ok(None) => {
                if t0.elapsed().as_secs() > limit_secs {
                    let _ = child.kill();
                    let _ = child.wait();
                    break None;
                }
                std::thread::sleep(std::time::Duration::from_millis(2));
            }
            Err(e) => {
                eprintln!("MACHINERY: waiting for {} failed: {}", bin, e);
                std::process::exit(2);
            }
        }
    };
    let err_text = reader.and_then(|h| h.join().ok()).map(|b| String::from_utf8_lossy(&b).chars().take(400).collect::<String>()).unwrap_or_default();
    match status {
        Some(st) => BinOut { code: st.code(), stderr: err_text },
        None => BinOut { code: None, stderr: format!("timeout after {} s", limit_secs) },
    }
}

/// did the process end by itself, without a Rust panic (101) and without a signal? Whether a successful run exits with 0
/// or (like a linter) with another status when it has findings is not fixed by any property: what counts is the report
pub fn completed(code: Option<i32>) -> bool {
    matches!(code, Some(c) if c != 101 && (0..128).contains(&c))
}

pub fn snapshot(dir: &Path) -> BTreeMap<String, Vec<u8>> {
    fn rec(base: &Path, d: &Path, out: &mut BTreeMap<String, Vec<u8>>) {
        if let Ok(rd) = std::fs::read_dir(d) {
            for e in rd.flatten() {
                let p = e.path();
                let rel = p.strip_prefix(base).unwrap().to_string_lossy().to_string();
                if p.is_dir() {
                    out.insert(format!("{}/", rel), Vec::new());
                    rec(base, &p, out);
                } else {
                    out.insert(rel, std::fs::read(&p).unwrap_or_default());
                }
            }
        }
    }
    let mut out = BTreeMap::new();
    rec(dir, dir, &mut out);
    out
}

fn scratch(tag: &str) -> PathBuf {
    let base = if Path::new("/dev/shm").is_dir() { "/dev/shm".to_string() } else { "/verif/.build/scratch".to_string() };
    let d = PathBuf::from(format!("{}/solstat-mc.{}.{}.{:?}", base, std::process::id(), tag, std::thread::current().id()).replace(['(', ')'], ""));
    let _ = std::fs::remove_dir_all(&d);
    std::fs::create_dir_all(&d).unwrap();
    d
}

// ------------------------------------------------------------------------------ documented names

pub struct Documented {
    pub optimizations: BTreeSet<String>,
    pub vulnerabilities: BTreeSet<String>,
    pub qa: BTreeSet<String>,
    pub sources: Vec<String>,
}

fn table_names(text: &str) -> Vec<String> {
    let mut v = Vec::new();
    for l in text.lines() {
        let l = l.trim();
        if !l.starts_with('|') {
            continue;
        }
        let cell = l.trim_start_matches('|').split('|').next().unwrap_or("").trim().trim_matches('`');
        if !cell.is_empty() && cell.chars().all(|c| c.is_ascii_lowercase() || c.is_ascii_digit() || c == '_') && cell.contains('_') || (cell == "sstore") {
            v.push(cell.to_string());
        }
    }
    v
}

fn toml_list(text: &str, key: &str) -> Vec<String> {
    let mut v = Vec::new();
    if let Some(i) = text.find(&format!("\n{} = [", key)).or_else(|| if text.starts_with(&format!("{} = [", key)) { Some(0) } else { None }) {
        if let Some(j) = text[i..].find(']') {
            let body = &text[i..i + j];
            let mut in_q = false;
            let mut cur = String::new();
            for c in body.chars() {
                if c == '"' {
                    if in_q {
                        v.push(cur.clone());
                        cur.clear();
                    }
                    in_q = !in_q;
                } else if in_q {
                    cur.push(c);
                }
            }
        }
    }
    v
}

pub fn documented(repo: &str) -> Documented {
    let mut d = Documented { optimizations: BTreeSet::new(), vulnerabilities: BTreeSet::new(), qa: BTreeSet::new(), sources: Vec::new() };
    let rd = |p: &str| std::fs::read_to_string(format!("{}/{}", repo, p)).unwrap_or_default();
    for n in table_names(&rd("docs/identified-optimizations.md")) {
        d.optimizations.insert(n);
    }
    for n in table_names(&rd("docs/identified-vulnerabilities.md")) {
        d.vulnerabilities.insert(n);
    }
    for n in table_names(&rd("docs/identified-quality-assurance.md")) {
        d.qa.insert(n);
    }
    let toml = rd("Solstat.toml");
    for n in toml_list(&toml, "optimizations") {
        d.optimizations.insert(n);
    }
    for n in toml_list(&toml, "vulnerabilities") {
        d.vulnerabilities.insert(n);
    }
    for n in toml_list(&toml, "qa") {
        d.qa.insert(n);
    }
    // README tables (if any)
    let readme = rd("README.md");
    for n in table_names(&readme) {
        if crate::dets::VULN_NAMES.contains(&n.as_str()) {
            d.vulnerabilities.insert(n);
        } else if crate::dets::QA_NAMES.contains(&n.as_str()) {
            d.qa.insert(n);
        } else {
            d.optimizations.insert(n);
        }
    }
    d.sources = vec!["docs/identified-optimizations.md".into(), "docs/identified-vulnerabilities.md".into(), "docs/identified-quality-assurance.md".into(), "Solstat.toml".into(), "README.md".into()];
    d
}

fn casing(name: &str, mask: u64) -> String {
    let mut k = 0;
    name.chars()
        .map(|c| {
            if c.is_ascii_alphabetic() {
                let up = mask & (1 << k) != 0;
                k += 1;
                if up {
                    c.to_ascii_uppercase()
                } else {
                    c
                }
            } else {
                c
            }
        })
        .collect()
}

fn casing_masks(k: u32, tier: Tier) -> Vec<u64> {
    let full: u64 = if k >= 64 { u64::MAX } else { (1u64 << k) - 1 };
    let limit = if tier == Tier::Quick { 12 } else { 22 };
    if k <= limit {
        return (0..=full).collect();
    }
    let mut s: BTreeSet<u64> = BTreeSet::new();
    let radius = if tier == Tier::Quick { 2 } else { 3 };
    // Hamming balls around all-lower and all-upper
    let mut ball: Vec<u64> = vec![0];
    let mut frontier: Vec<u64> = vec![0];
    for _ in 0..radius {
        let mut next = Vec::new();
        for m in &frontier {
            for b in 0..k {
                if m & (1 << b) == 0 {
                    next.push(m | (1 << b));
                }
            }
        }
        next.sort();
        next.dedup();
        ball.extend(next.iter().copied());
        frontier = next;
    }
    for m in ball {
        s.insert(m);
        s.insert(full ^ m);
    }
    // alternating, capitalised prefixes, lower-head / upper-tail at every split
    s.insert(0x5555_5555_5555_5555 & full);
    s.insert(0xAAAA_AAAA_AAAA_AAAA & full);
    for b in 0..=k {
        let low: u64 = if b == 0 { 0 } else { (1u64 << b) - 1 };
        s.insert(low);
        s.insert(full ^ low);
    }
    s.into_iter().collect()
}

// ======================================================================================= C14

pub fn write_toml(path: &Path, dir: &str, o: &[String], v: &[String], q: &[String]) {
    let l = |xs: &[String]| xs.iter().map(|x| format!("\"{}\"", x.replace('\\', "\\\\").replace('"', "\\\""))).collect::<Vec<_>>().join(", ");
    let t = format!("path = '{}'\noptimizations = [{}]\nvulnerabilities = [{}]\nqa = [{}]\n", dir, l(o), l(v), l(q));
    std::fs::write(path, t).unwrap();
}

fn pat_for(name: &str) -> Option<Pat> {
    let r = match pats::category(name) {
        "vulnerabilities" => util::guarded(|| vul::str_to_vulnerability(name)).ok().and_then(|x| vul::get_all_vulnerabilities().iter().position(|y| *y == x)).map(Pat::V),
        "qa" => util::guarded(|| qa::str_to_qa(name)).ok().and_then(|x| qa::get_all_qa().iter().position(|y| *y == x)).map(Pat::Q),
        _ => util::guarded(|| opt::str_to_optimization(name)).ok().and_then(|x| opt::get_all_optimizations().iter().position(|y| *y == x)).map(Pat::O),
    };
    r
}

pub fn c14(tier: Tier) -> i32 {
    util::quiet();
    let mut run = Run::new("C14", if tier == Tier::Quick { "quick" } else { "thorough" });
    let doc = documented(&crate::ev::repo_home());
    if doc.optimizations.len() < 20 || doc.vulnerabilities.len() < 4 || doc.qa.len() < 3 {
        run.machinery(format!("could not parse the documented names ({} / {} / {})", doc.optimizations.len(), doc.vulnerabilities.len(), doc.qa.len()));
    }
    // ---------------------------------------------------------------- name level
    let mut name_calls = 0u64;
    let cats: Vec<(&str, Vec<String>)> = vec![
        ("optimizations", doc.optimizations.iter().cloned().collect()),
        ("vulnerabilities", doc.vulnerabilities.iter().cloned().collect()),
        ("qa", doc.qa.iter().cloned().collect()),
    ];
    let lookup = |cat: &str, s: &str| -> Result<String, String> {
        match cat {
            "optimizations" => util::guarded(|| format!("{:?}", opt::str_to_optimization(s))),
            "vulnerabilities" => util::guarded(|| format!("{:?}", vul::str_to_vulnerability(s))),
            _ => util::guarded(|| format!("{:?}", qa::str_to_qa(s))),
        }
    };
    let mut images: BTreeMap<&str, BTreeMap<String, String>> = BTreeMap::new();
    for (cat, names) in &cats {
        for n in names {
            let base = lookup(cat, n);
            name_calls += 1;
            let base = match base {
                Ok(b) => b,
                Err(e) => {
                    run.violation(Violation {
                        site: format!("name:{}:documented-name-rejected", n),
                        input: format!("{} = [\"{}\"]", cat, n),
                        expected: "every documented name is accepted".into(),
                        observed: e,
                        size: n.len(),
                        unit_test: String::new(),
                        extra: json!({}),
                    });
                    continue;
                }
            };
            if let Some(prev) = images.entry(cat).or_default().insert(base.clone(), n.clone()) {
                run.violation(Violation {
                    site: format!("name:{}:two-names-one-pattern", n),
                    input: format!("{} and {}", prev, n),
                    expected: "distinct documented names select distinct patterns".into(),
                    observed: format!("both select {}", base),
                    size: n.len(),
                    unit_test: String::new(),
                    extra: json!({}),
                });
            }
            let k = n.chars().filter(|c| c.is_ascii_alphabetic()).count() as u32;
            let masks = casing_masks(k, tier);
            let bad = util::par_map(masks.len(), |i| {
                let s = casing(n, masks[i]);
                match lookup(cat, &s) {
                    Ok(b) if b == base => None,
                    Ok(b) => Some((s, format!("selects {}", b))),
                    Err(e) => Some((s, format!("rejected: {}", e))),
                }
            });
            name_calls += masks.len() as u64;
            if let Some((s, why)) = bad.into_iter().flatten().next() {
                run.violation(Violation {
                    site: format!("name:{}:casing", n),
                    input: format!("{} = [\"{}\"]", cat, s),
                    expected: format!("accepted regardless of letter case, same pattern as \"{}\"", n),
                    observed: why,
                    size: n.len(),
                    unit_test: String::new(),
                    extra: json!({}),
                });
            }
        }
    }
    // every default pattern is the image of a documented name
    let defaults: Vec<(&str, Vec<String>)> = vec![
        ("optimizations", opt::get_all_optimizations().iter().map(|x| format!("{:?}", x)).collect()),
        ("vulnerabilities", vul::get_all_vulnerabilities().iter().map(|x| format!("{:?}", x)).collect()),
        ("qa", qa::get_all_qa().iter().map(|x| format!("{:?}", x)).collect()),
    ];
    for (cat, ds) in &defaults {
        for d in ds {
            // "can be selected by name": by a documented name, or (for a pattern newer than the documentation) by the
            // snake_case spelling of the variant itself
            let mut snake = String::new();
            for (k, c) in d.chars().enumerate() {
                if c.is_ascii_uppercase() && k > 0 && !d.chars().nth(k - 1).map(|p| p.is_ascii_uppercase() || p.is_ascii_digit()).unwrap_or(false) {
                    snake.push('_');
                }
                snake.push(c.to_ascii_lowercase());
            }
            let by_own_name = matches!(lookup(cat, &snake), Ok(b) if b == *d);
            if !by_own_name && !images.get(cat).map(|m| m.contains_key(d)).unwrap_or(false) {
                run.violation(Violation {
                    site: format!("name:{}:default-pattern-without-documented-name", d),
                    input: d.clone(),
                    expected: "every pattern that runs by default can be selected by a documented name".into(),
                    observed: format!("no documented {} name maps to {}", cat, d),
                    size: 1,
                    unit_test: String::new(),
                    extra: json!({}),
                });
            }
        }
    }

    // ---------------------------------------------------------------- binary level
    let bin = match bin_path() {
        Some(b) => b,
        None => {
            run.machinery("SOLSTAT_BIN (unhooked binary) not found".into());
            return run.finish();
        }
    };
    let tb = report::tables();
    let srcs = pats::sources();
    // which patterns have a finding somewhere in the corpus, according to the library of THIS build: only those can show
    // up as report sections. (Each corpus file is written to have a finding of its own pattern; if a build's detector
    // no longer reports it, that pattern drops out of the section oracle and the evidence says so.)
    let mut live: BTreeSet<Pat> = BTreeSet::new();
    {
        let os = opt::get_all_optimizations();
        let vs_ = vul::get_all_vulnerabilities();
        let qs = qa::get_all_qa();
        for (_, src) in &srcs {
            for (k, o) in os.iter().enumerate() {
                if util::guarded(|| opt::analyze_for_optimization(src, 0, *o)).map(|r| !r.is_empty()).unwrap_or(false) {
                    live.insert(Pat::O(k));
                }
            }
            for (k, o) in vs_.iter().enumerate() {
                if util::guarded(|| vul::analyze_for_vulnerability(src, 0, *o)).map(|r| !r.is_empty()).unwrap_or(false) {
                    live.insert(Pat::V(k));
                }
            }
            for (k, o) in qs.iter().enumerate() {
                if util::guarded(|| qa::analyze_for_qa(src, 0, *o)).map(|r| !r.is_empty()).unwrap_or(false) {
                    live.insert(Pat::Q(k));
                }
            }
        }
    }
    for d in crate::dets::all() {
        match srcs.iter().find(|(n, _)| *n == d.name) {
            Some((_, s)) => {
                if crate::dets::run_guarded(&d, s, 0).map(|r| r.is_empty()).unwrap_or(true) {
                    run.assume(&format!("the corpus file for {} has no finding of its own pattern in this build: that pattern is not covered by the section oracle", d.name));
                }
            }
            None => run.machinery(format!("no corpus file for {}", d.name)),
        }
    }
    let all_names: Vec<String> = srcs.iter().map(|(n, _)| n.to_string()).collect();
    let cat_names = |c: &str| -> Vec<String> { all_names.iter().filter(|n| pats::category(n) == c).cloned().collect() };
    let (on, vn, qn) = (cat_names("optimizations"), cat_names("vulnerabilities"), cat_names("qa"));

    // selections to run: (label, opts, vulns, qas)
    let mut sels: Vec<(String, Vec<String>, Vec<String>, Vec<String>)> = Vec::new();
    for n in &all_names {
        for (ci, cm) in [0u64, u64::MAX, 0x5555_5555_5555_5555, 1].iter().enumerate() {
            if tier == Tier::Quick && ci >= 2 && n.len() % 2 == 0 {
                continue;
            }
            let s = casing(n, *cm);
            let (mut o, mut v, mut q) = (vec![], vec![], vec![]);
            match pats::category(n) {
                "vulnerabilities" => v.push(s),
                "qa" => q.push(s),
                _ => o.push(s),
            }
            sels.push((format!("single:{}:casing{}", n, ci), o, v, q));
        }
    }
    let mut pair_k = 0usize;
    for (cat, names) in [("o", &on), ("v", &vn), ("q", &qn)] {
        for a in names.iter() {
            for b in names.iter() {
                if a == b {
                    continue;
                }
                pair_k += 1;
                if tier == Tier::Quick && cat == "o" && pair_k % 9 != 0 {
                    continue;
                }
                let pair = vec![a.clone(), b.clone()];
                match cat {
                    "o" => sels.push((format!("pair:{}+{}", a, b), pair, vec![], vec![])),
                    "v" => sels.push((format!("pair:{}+{}", a, b), vec![], pair, vec![])),
                    _ => sels.push((format!("pair:{}+{}", a, b), vec![], vec![], pair)),
                }
            }
        }
    }
    let mut tri = 0usize;
    for a in &on {
        for b in &vn {
            for c in &qn {
                tri += 1;
                if tier == Tier::Quick && tri % 7 != 0 {
                    continue;
                }
                sels.push((format!("triple:{}+{}+{}", a, b, c), vec![a.clone()], vec![b.clone()], vec![c.clone()]));
            }
        }
    }
    sels.push(("empty-lists".into(), vec![], vec![], vec![]));
    sels.push(("repeated-name".into(), vec![on[0].clone(), on[0].clone()], vec![], vec![]));

    let res = util::par_map(sels.len() + 1, |i| {
        let root = scratch("c14");
        let corpus = root.join("corpus");
        std::fs::create_dir_all(corpus.join("nested").join("deeper")).unwrap();
        // the corpus is spread over three directory levels: "exactly the listed patterns are analysed" at every depth
        for (k, (n, s)) in srcs.iter().enumerate() {
            let d = match k % 3 {
                0 => corpus.clone(),
                1 => corpus.join("nested"),
                _ => corpus.join("nested").join("deeper"),
            };
            std::fs::write(d.join(format!("{}.sol", n)), s).unwrap();
        }
        let cwd = root.join("cwd");
        std::fs::create_dir_all(&cwd).unwrap();
        let mut vs = Vec::new();
        let (label, want): (String, BTreeSet<Pat>) = if i == sels.len() {
            // no --toml: every pattern
            ("default(no --toml)".to_string(), live.clone())
        } else {
            let (l, o, v, q) = &sels[i];
            write_toml(&root.join("cfg.toml"), corpus.to_str().unwrap(), o, v, q);
            (l.clone(), o.iter().chain(v.iter()).chain(q.iter()).filter_map(|n| pat_for(&n.to_lowercase())).filter(|p| live.contains(p)).collect())
        };
        // every third configured run follows a run with ALL patterns in the same working directory (the report of a configured
        // run shows the configured patterns, whatever an earlier run left there)
        let label = if i != sels.len() && i % 3 == 1 {
            let _ = run_bin(&bin, &cwd, &["--path", corpus.to_str().unwrap()]);
            format!("{} [after a run with all patterns in the same working directory]", label)
        } else {
            label
        };
        let out = if i == sels.len() { run_bin(&bin, &cwd, &["--path", corpus.to_str().unwrap()]) } else { run_bin(&bin, &cwd, &["--toml", root.join("cfg.toml").to_str().unwrap()]) };
        let rep = std::fs::read_to_string(cwd.join("solstat_report.md"));
        match (out.code, rep) {
            (code, Ok(r)) if completed(code) => {
                let p = report::parse_report(&r, &tb);
                let got: BTreeSet<Pat> = p.sections.iter().map(|x| x.1).collect();
                if got != want {
                    let missing: Vec<String> = want.difference(&got).map(|x| tb.name[x].clone()).collect();
                    let extra: Vec<String> = got.difference(&want).map(|x| tb.name[x].clone()).collect();
                    vs.push(Violation {
                        site: format!("binary:selection:{}", if !extra.is_empty() { "unselected-pattern-analysed" } else { "selected-pattern-not-analysed" }),
                        input: label.clone(),
                        expected: "report sections = exactly the selected patterns (each has a finding in the corpus directory)".into(),
                        observed: format!("missing {:?} extra {:?}", missing, extra),
                        size: label.len(),
                        unit_test: String::new(),
                        extra: json!({}),
                    });
                }
            }
            (code, rep) => vs.push(Violation {
                site: "binary:selection:run-failed".into(),
                input: label.clone(),
                expected: "the run completes and writes a report".into(),
                observed: format!("exit {:?}, report present: {}, stderr: {}", code, rep.is_ok(), out.stderr),
                size: label.len(),
                unit_test: String::new(),
                extra: json!({}),
            }),
        }
        let _ = std::fs::remove_dir_all(&root);
        vs
    });
    let mut bin_runs = res.len() as u64;
    for vs in res {
        run.merge_violations(vs);
    }
    // without --toml all patterns are analysed, whatever files lie in the working directory or in the
    // analysed directory (a file named Solstat.toml is just a file)
    for place in ["cwd", "analysed-dir", "both"] {
        let root = scratch("c14stray");
        let corpus = root.join("corpus");
        std::fs::create_dir_all(&corpus).unwrap();
        for (n, s) in &srcs {
            std::fs::write(corpus.join(format!("{}.sol", n)), s).unwrap();
        }
        let cwd = root.join("cwd");
        std::fs::create_dir_all(&cwd).unwrap();
        let stray = "path = './elsewhere'\noptimizations = [\"sstore\"]\nvulnerabilities = []\nqa = []\n";
        if place != "analysed-dir" {
            std::fs::write(cwd.join("Solstat.toml"), stray).unwrap();
        }
        if place != "cwd" {
            std::fs::write(corpus.join("Solstat.toml"), stray).unwrap();
        }
        let out = run_bin(&bin, &cwd, &["--path", corpus.to_str().unwrap()]);
        bin_runs += 1;
        let want: BTreeSet<Pat> = live.clone();
        let got: BTreeSet<Pat> = std::fs::read_to_string(cwd.join("solstat_report.md")).map(|r| report::parse_report(&r, &tb).sections.iter().map(|x| x.1).collect()).unwrap_or_default();
        if !completed(out.code) || got != want {
            run.violation(Violation {
                site: "binary:selection:stray-config-file-changes-default-run".into(),
                input: format!("no --toml; a file named Solstat.toml lies in: {}", place),
                expected: "without a configuration file all patterns are analysed".into(),
                observed: format!("exit {:?}; {} of {} pattern sections present; stderr {}", out.code, got.len(), want.len(), out.stderr),
                size: 1,
                unit_test: String::new(),
                extra: json!({}),
            });
        }
        let _ = std::fs::remove_dir_all(&root);
    }

    // ---- directory resolution: --path {absent, dirA, ./contracts, contracts} x --toml {absent, path=dirB, path=./contracts} x ./contracts {exists, absent}
    //      x where the configuration file lies {working directory, a sub-directory named relatively / absolutely}:
    //      relative paths are relative to the working directory wherever the configuration file is; the
    //      sub-directory holds directories of the same names with other files, so a wrong base shows
    let mut res_cases: Vec<(Option<&str>, Option<&str>, bool, &str)> = Vec::new();
    // ("nowhere" does not exist and "dirA/InA.sol" is a file: a selected directory that cannot be listed is not replaced by another)
    for flag in [None, Some("dirA"), Some("./contracts"), Some("contracts"), Some("./dirA"), Some("nowhere"), Some("dirA/InA.sol")] {
        for tomlp in [None, Some("dirB"), Some("./contracts"), Some("./dirB"), Some("nowhere")] {
            for contracts in [true, false] {
                for loc in ["cwd", "sub-relative", "sub-absolute"] {
                    if tomlp.is_none() && loc != "cwd" {
                        continue;
                    }
                    res_cases.push((flag, tomlp, contracts, loc));
                }
            }
        }
    }
    for (flag, tomlp, contracts, loc) in &res_cases {
        let root = scratch("c14dir");
        let mk = |d: &str, file: &str| {
            std::fs::create_dir_all(root.join(d)).unwrap();
            std::fs::write(root.join(d).join(file), "pragma solidity ^0.8.0;\ncontract X { }\n").unwrap();
        };
        mk("dirA", "InA.sol");
        mk("dirB", "InB.sol");
        if *contracts {
            mk("contracts", "InContracts.sol");
        }
        let mut args: Vec<String> = Vec::new();
        if let Some(f) = flag {
            args.push("--path".into());
            args.push(f.to_string());
        }
        if *loc != "cwd" {
            mk("conf/dirA", "InConfA.sol");
            mk("conf/dirB", "InConfB.sol");
            mk("conf/contracts", "InConfContracts.sol");
        }
        if let Some(tp) = tomlp {
            let (file, arg) = match *loc {
                "cwd" => (root.join("cfg.toml"), "cfg.toml".to_string()),
                "sub-relative" => (root.join("conf").join("cfg.toml"), "conf/cfg.toml".to_string()),
                _ => (root.join("conf").join("cfg.toml"), root.join("conf").join("cfg.toml").to_string_lossy().to_string()),
            };
            write_toml(&file, tp, &[], &["floating_pragma".to_string()], &[]);
            args.push("--toml".into());
            args.push(arg);
        }
        let expect_dir: Option<&str> = match (flag, tomlp) {
            (Some(f), _) => Some(f.trim_start_matches("./")),
            (None, Some(tp)) => Some(tp.trim_start_matches("./")),
            (None, None) => Some("contracts"),
        };
        let expect_file = match expect_dir {
            Some("dirA") => Some("InA.sol"),
            Some("dirB") => Some("InB.sol"),
            Some("contracts") if *contracts => Some("InContracts.sol"),
            _ => None,
        };
        let argrefs: Vec<&str> = args.iter().map(|s| s.as_str()).collect();
        let out = run_bin(&bin, &root, &argrefs);
        bin_runs += 1;
        let rep = std::fs::read_to_string(root.join("solstat_report.md"));
        let label = format!("--path {:?} toml-path {:?} ./contracts exists: {} configuration file: {}", flag, tomlp, contracts, loc);
        match expect_file {
            Some(f) => {
                let names: Vec<String> = rep.as_ref().map(|r| report::parse_report(r, &tb).entries.values().flatten().map(|e| crate::fsx::base_name(&e.0)).collect()).unwrap_or_default();
                if !completed(out.code) || names.iter().any(|n| n != f) || names.is_empty() {
                    run.violation(Violation {
                        site: format!("binary:directory:{}", if flag.is_some() { "flag-not-used" } else if tomlp.is_some() { "toml-path-not-used" } else { "default-not-used" }),
                        input: label,
                        expected: format!("the directory analysed is the --path argument if given, otherwise the toml path, otherwise ./contracts: findings in {}", f),
                        observed: format!("exit {:?}; files in the report: {:?}; stderr {}", out.code, names, out.stderr),
                        size: 1,
                        unit_test: String::new(),
                        extra: json!({}),
                    });
                }
            }
            None => {
                // the resolved directory does not exist: the property does not say whether that is an error or an
                // empty analysis, only that no OTHER directory is analysed instead
                let names: Vec<String> = rep.as_ref().map(|r| report::parse_report(r, &tb).entries.values().flatten().map(|e| crate::fsx::base_name(&e.0)).collect()).unwrap_or_default();
                // (a build that accepts a single file as --path analyses exactly what --path names: findings of that file are fine)
                let named_file: Option<&str> = match (flag, tomlp) {
                    (Some(f), _) if f.ends_with(".sol") => f.rsplit('/').next(),
                    _ => None,
                };
                if names.iter().any(|n| Some(n.as_str()) != named_file) {
                    run.violation(Violation {
                        site: "binary:directory:another-directory-analysed-instead-of-the-missing-one".into(),
                        input: label,
                        expected: "no findings from any other directory when the resolved directory does not exist".into(),
                        observed: format!("exit {:?}, files in the report: {:?}", out.code, names),
                        size: 1,
                        unit_test: String::new(),
                        extra: json!({}),
                    });
                }
            }
        }
        let _ = std::fs::remove_dir_all(&root);
    }

    // ---- the analysed directory named by `.`, `./`, `..`, with a trailing slash, by its absolute path (flag and configuration
    //      file): the same directory, the same findings
    {
        let root = scratch("c14dot");
        let mk = |d: &str, file: &str| {
            std::fs::create_dir_all(root.join(d)).unwrap();
            std::fs::write(root.join(d).join(file), "pragma solidity ^0.8.0;\ncontract X { }\n").unwrap();
        };
        mk("work", "InWork.sol");
        mk("work/inner", "InInner.sol");
        mk("work/inner/deep", "InDeep.sol");
        let abs_work = root.join("work").to_string_lossy().to_string();
        let abs_slash = format!("{}/", abs_work);
        let cases: Vec<(&str, Vec<String>, Option<String>, Vec<&str>)> = vec![
            ("work", vec!["--path".into(), ".".into()], None, vec!["InDeep.sol", "InInner.sol", "InWork.sol"]),
            ("work", vec!["--path".into(), "./".into()], None, vec!["InDeep.sol", "InInner.sol", "InWork.sol"]),
            ("work/inner", vec!["--path".into(), "..".into()], None, vec!["InDeep.sol", "InInner.sol", "InWork.sol"]),
            ("work/inner", vec!["--path".into(), "../".into()], None, vec!["InDeep.sol", "InInner.sol", "InWork.sol"]),
            ("work/inner", vec!["--path".into(), "./deep/".into()], None, vec!["InDeep.sol"]),
            ("work/inner", vec!["--path".into(), "../inner".into()], None, vec!["InDeep.sol", "InInner.sol"]),
            ("", vec!["--path".into(), abs_work.clone()], None, vec!["InDeep.sol", "InInner.sol", "InWork.sol"]),
            ("", vec!["--path".into(), abs_slash.clone()], None, vec!["InDeep.sol", "InInner.sol", "InWork.sol"]),
            ("", vec!["--path".into(), "work/".into()], None, vec!["InDeep.sol", "InInner.sol", "InWork.sol"]),
            ("work", vec![], Some(".".into()), vec!["InDeep.sol", "InInner.sol", "InWork.sol"]),
            ("work/inner", vec![], Some("..".into()), vec!["InDeep.sol", "InInner.sol", "InWork.sol"]),
            ("work", vec![], Some("./inner/".into()), vec!["InDeep.sol", "InInner.sol"]),
        ];
        for (cwd_rel, mut args, toml_path, want) in cases {
            let cwd = root.join(cwd_rel);
            let _ = std::fs::remove_file(cwd.join("solstat_report.md"));
            if let Some(tp) = &toml_path {
                write_toml(&cwd.join("dot.toml"), tp, &[], &["floating_pragma".to_string()], &[]);
                args.push("--toml".into());
                args.push("dot.toml".into());
            }
            let argrefs: Vec<&str> = args.iter().map(|s| s.as_str()).collect();
            let out = run_bin(&bin, &cwd, &argrefs);
            bin_runs += 1;
            let mut names: Vec<String> = std::fs::read_to_string(cwd.join("solstat_report.md")).map(|r| report::parse_report(&r, &tb).entries.values().flatten().map(|e| crate::fsx::base_name(&e.0)).collect()).unwrap_or_default();
            names.sort();
            names.dedup();
            if !completed(out.code) || names != want {
                run.violation(Violation {
                    site: "binary:directory:spelling-of-the-path-changes-what-is-analysed".into(),
                    input: format!("working directory <root>/{} arguments {:?} configured path {:?}", cwd_rel, args, toml_path),
                    expected: format!("findings in {:?}", want),
                    observed: format!("exit {:?}; files in the report: {:?}; stderr {}", out.code, names, out.stderr),
                    size: 1,
                    unit_test: String::new(),
                    extra: json!({}),
                });
            }
            let _ = std::fs::remove_file(cwd.join("dot.toml"));
            let _ = std::fs::remove_file(cwd.join("solstat_report.md"));
        }
        let _ = std::fs::remove_dir_all(&root);
    }

    // ---- unknown names: non-zero exit, report neither created nor modified
    let unknown: Vec<String> = vec!["".into(), "foo".into(), "address_balance ".into(), " address_balance".into(), "address-balance".into(), "addressbalance".into(), "floating_pragma".into(), "address_balance_x".into(), "constructor_order".into(), "sstore2".into(),
        // strings that a pattern-matching or prefix-matching lookup would accept
        "sstor.".into(), "s.tore".into(), ".*".into(), "sstore?".into(), "sstore|nothing".into(), "sstore*".into(), "^sstore$".into(), "(sstore)".into(), "[s]store".into(), "sstor".into(), "s".into(), "sstore%".into(), "floating.pragma".into(), "constructor.order".into(), "sstore,".into(), "\"sstore\"".into()];
    let mut unk_cases: Vec<(String, Vec<String>, Vec<String>, Vec<String>, bool)> = Vec::new();
    for u in &unknown {
        for list in 0..3 {
            // a name is "unknown" for the list it is put into
            let known_here = match list {
                0 => pat_for(u).map(|p| matches!(p, Pat::O(_))).unwrap_or(false) && pats::category(u) == "optimizations",
                1 => pats::category(u) == "vulnerabilities" && crate::dets::VULN_NAMES.contains(&u.as_str()),
                _ => pats::category(u) == "qa" && crate::dets::QA_NAMES.contains(&u.as_str()),
            };
            if known_here {
                continue;
            }
            // a spelling that differs from a documented name of this list only in letter case, white space or punctuation
            // (`address-balance`, `addressbalance`, ` sstore`, `sstore?`) is a tolerant spelling, which the property neither
            // demands nor forbids: only strings that no such reading turns into a name of this list count as unknown
            let canon = |x: &str| x.chars().filter(|c| c.is_alphanumeric()).flat_map(|c| c.to_lowercase()).collect::<String>();
            let documented: &[&str] = match list {
                0 => crate::dets::OPT_NAMES,
                1 => crate::dets::VULN_NAMES,
                _ => crate::dets::QA_NAMES,
            };
            if documented.iter().any(|d| canon(d) == canon(u)) {
                continue;
            }
            for pos in 0..3 {
                let valid: Vec<String> = match list {
                    0 => vec![on[0].clone(), on[1].clone()],
                    1 => vec![vn[0].clone(), vn[1].clone()],
                    _ => vec![qn[0].clone(), qn[1].clone()],
                };
                let mut l = valid.clone();
                l.insert(pos.min(l.len()), u.clone());
                let (mut o, mut v, mut q) = (vec![on[2].clone()], vec![vn[2].clone()], vec![qn[2].clone()]);
                match list {
                    0 => o = l,
                    1 => v = l,
                    _ => q = l,
                }
                for pre in [false, true] {
                    unk_cases.push((format!("unknown {:?} in list {} at position {} (pre-existing report: {})", u, ["optimizations", "vulnerabilities", "qa"][list], pos, pre), o.clone(), v.clone(), q.clone(), pre));
                }
            }
        }
    }
    // a name that is valid in ANOTHER list and also listed there (in any casing) is still unknown here
    for (li, other_valid, casing_mask) in [(1usize, on[0].clone(), 0u64), (1, on[1].clone(), u64::MAX), (2, on[0].clone(), 1), (2, vn[0].clone(), 0), (0, vn[0].clone(), 0x5555), (0, qn[0].clone(), 0)] {
        let misplaced = casing(&other_valid, casing_mask);
        let (mut o, mut v, mut q) = (vec![on[0].clone(), on[1].clone()], vec![vn[0].clone()], vec![qn[0].clone()]);
        match li {
            0 => o.push(misplaced.clone()),
            1 => v.push(misplaced.clone()),
            _ => q.push(misplaced.clone()),
        }
        for pre in [false, true] {
            unk_cases.push((format!("name {:?} valid for another list and listed there, also put into list {} (pre-existing report: {})", misplaced, ["optimizations", "vulnerabilities", "qa"][li], pre), o.clone(), v.clone(), q.clone(), pre));
        }
    }
    // many unknown names at once (an exit status is a byte: a count of 256 or 512 reads as success)
    for n in [2usize, 255, 256, 257, 512, 768] {
        for list in 0..3 {
            let many: Vec<String> = (0..n).map(|k| format!("no_such_pattern_{}", k)).collect();
            let (mut o, mut v, mut q) = (vec![on[0].clone()], vec![vn[0].clone()], vec![qn[0].clone()]);
            match list {
                0 => o.extend(many),
                1 => v.extend(many),
                _ => q.extend(many),
            }
            for pre in [false, true] {
                unk_cases.push((format!("{} unknown names in list {} (pre-existing report: {})", n, ["optimizations", "vulnerabilities", "qa"][list], pre), o.clone(), v.clone(), q.clone(), pre));
            }
        }
    }
    let ures = util::par_map(unk_cases.len(), |i| {
        let (label, o, v, q, pre) = &unk_cases[i];
        let root = scratch("c14unk");
        let corpus = root.join("corpus");
        std::fs::create_dir_all(&corpus).unwrap();
        for (n, s) in srcs.iter().take(6) {
            std::fs::write(corpus.join(format!("{}.sol", n)), s).unwrap();
        }
        let cwd = root.join("cwd");
        std::fs::create_dir_all(&cwd).unwrap();
        if *pre {
            std::fs::write(cwd.join("solstat_report.md"), b"previous report\n").unwrap();
        }
        write_toml(&root.join("cfg.toml"), corpus.to_str().unwrap(), o, v, q);
        let out = run_bin(&bin, &cwd, &["--toml", root.join("cfg.toml").to_str().unwrap()]);
        let after = std::fs::read(cwd.join("solstat_report.md")).ok();
        let untouched = if *pre { after.as_deref() == Some(b"previous report\n".as_slice()) } else { after.is_none() };
        let mut vs = Vec::new();
        if out.code == Some(0) || !untouched {
            vs.push(Violation {
                site: format!("binary:unknown-name:{}", if out.code == Some(0) { "accepted" } else { "report-written-before-failing" }),
                input: label.clone(),
                expected: "non-zero exit status before any report is written".into(),
                observed: format!("exit {:?}; report untouched: {}", out.code, untouched),
                size: label.len(),
                unit_test: String::new(),
                extra: json!({}),
            });
        }
        let _ = std::fs::remove_dir_all(&root);
        vs
    });
    bin_runs += unk_cases.len() as u64;
    for vs in ures {
        run.merge_violations(vs);
    }

    run.set("states", name_calls + bin_runs);
    run.set("transitions", name_calls + bin_runs);
    run.set("traces_validated_against_impl", bin_runs);
    run.set("evaluations", name_calls + bin_runs);
    run.set("distinct_nontrivial", (sels.len() + res_cases.len() + unk_cases.len()) as u64);
    run.set("name_table_calls", name_calls);
    run.set("binary_runs", bin_runs);
    run.set("documented_names", json!({"optimizations": doc.optimizations.len(), "vulnerabilities": doc.vulnerabilities.len(), "qa": doc.qa.len(), "parsed_from": doc.sources}));
    run.set(
        "rule",
        "name level: every name parsed at run time from docs/identified-*.md, README.md and Solstat.toml x every letter casing (all 2^k casings for names of <= 12 (quick) / 22 (thorough) letters, otherwise Hamming balls of radius 2/3 around all-lower and all-upper plus alternating and every lower/upper split) through str_to_*; distinctness; every default pattern named. Binary level (unhooked binary, corpus directory with one file per pattern): no --toml, every singleton in up to 4 casings, ordered pairs within a category, cross-category triples, empty lists, repeated name: report sections = exactly the selection; directory resolution: 5 --path values x 4 toml paths x ./contracts present/absent; unknown names: 10 strings x 3 lists x 3 positions x pre-existing report or not: non-zero exit, report untouched; non-trivial = distinct configurations run",
    );
    run.set("bound_completed", if tier == Tier::Quick { "casings: all for <= 12 letters else radius 2; every 9th optimisation pair; every 7th triple" } else { "casings: all for <= 22 letters else radius 3; all ordered pairs; all triples" });
    run.set("samples", json!(sels.iter().step_by(sels.len() / 4 + 1).take(4).map(|s| s.0.clone()).collect::<Vec<_>>()));
    run.finish()
}

// ======================================================================================= C18

#[derive(Clone, Debug, PartialEq, Eq, Hash)]
enum Act {
    Run(usize),
    Edit(usize),
    Plant(usize, usize),
}

const CWDS: &[&str] = &["out", "", "proj", "proj/sub"];

fn apply(root: &Path, a: &Act) {
    let proj = root.join("proj");
    match a {
        Act::Run(_) => {}
        Act::Edit(0) => std::fs::write(proj.join("c.sol"), crate::fsx::SRC_PQ).unwrap(),
        Act::Edit(1) => std::fs::write(proj.join("a.sol"), crate::fsx::SRC_P2).unwrap(),
        Act::Edit(2) => {
            let _ = std::fs::remove_file(proj.join("sub").join("b.sol"));
        }
        Act::Edit(4) => {
            // only optimisation / QA findings remain: no vulnerability part will be rendered
            let _ = std::fs::remove_file(proj.join("a.sol"));
            let _ = std::fs::remove_file(proj.join("c.sol"));
            let _ = std::fs::remove_file(proj.join("q.sol"));
            let _ = std::fs::remove_file(proj.join("sub").join("b.sol"));
            std::fs::write(proj.join("g.sol"), "pragma solidity 0.8.19;\ncontract G {\n  uint256 private hidden;\n  function g(uint256 a, uint256 b) public returns (bool) {\n    return a >= b + 1;\n  }\n}\n").unwrap();
        }
        Act::Edit(_) => {
            // make the tree quiet: no file has any finding
            let _ = std::fs::remove_file(proj.join("a.sol"));
            let _ = std::fs::remove_file(proj.join("c.sol"));
            let _ = std::fs::remove_file(proj.join("q.sol"));
            let _ = std::fs::remove_file(proj.join("g.sol"));
            let _ = std::fs::remove_file(proj.join("sub").join("b.sol"));
            std::fs::write(proj.join("n.sol"), crate::fsx::SRC_NONE).unwrap();
        }
        Act::Plant(c, k) => {
            let p = root.join(CWDS[*c]).join("solstat_report.md");
            if *k == 3 {
                // a neighbour of the report with a predictable scratch-like name
                std::fs::write(root.join(CWDS[*c]).join("solstat_report.md.tmp"), b"precious neighbour\n").unwrap();
                std::fs::write(root.join(CWDS[*c]).join("solstat_report.md.bak"), b"precious backup\n").unwrap();
                return;
            }
            let content: Vec<u8> = match k {
                0 => b"unrelated bytes \xff\xfe not a report\n".to_vec(),
                1 => vec![b'x'; 1 << 20],
                _ => {
                    let mut s = String::from("# stale report\n");
                    for i in 0..400 {
                        s.push_str(&format!("- Stale.sol:{}\n", i));
                    }
                    s.into_bytes()
                }
            };
            std::fs::write(p, content).unwrap();
        }
    }
}

fn init_tree_variant(root: &Path, variant: usize) {
    if variant < 2 {
        return init_tree(root, variant == 1);
    }
    init_tree(root, true);
    let proj = root.join("proj");
    if variant == 2 {
        // a project whose report exceeds a megabyte: 12 files with names of 200 bytes and 450 findings each, in all
        // three categories
        let mut body = String::from("pragma solidity ^0.8.0;\ncontract Big {\n  uint256 private hidden;\n  function g(uint256 a, uint256 b, address t) public payable {\n");
        for _ in 0..150 {
            body.push_str("    if (a >= b + 1) { IERC20(t).transfer(t, a - b); }\n");
        }
        body.push_str("  }\n  constructor() {}\n}\n");
        for k in 0..12 {
            let name = format!("{}{:02}.sol", "LongContractName".repeat(12), k);
            std::fs::write(proj.join(&name), &body).unwrap();
        }
    } else if variant == 4 {
        // every contract lies in a sub-directory (the analysed directory itself lists none), and one of them uses the rarely
        // seen constructs: unnamed parameters, a tuple with holes, try / bare catch, inline assembly, a loop without parts
        let _ = std::fs::remove_file(proj.join("a.sol"));
        let _ = std::fs::remove_file(proj.join("q.sol"));
        std::fs::create_dir_all(proj.join("sub").join("deeper")).unwrap();
        std::fs::write(proj.join("sub").join("deeper").join("c.sol"), crate::fsx::SRC_P).unwrap();
        std::fs::write(
            proj.join("sub").join("k.sol"),
            "pragma solidity ^0.8.0;\ninterface IRecv { function onReceived(address, address, uint256, bytes memory) external returns (bytes4); }\ncontract Sink {\n  uint256 h; uint256 g;\n  function onReceived(address, address, uint256, bytes memory) external returns (bytes4) { return 0x150b7a02; }\n  function q() internal returns (uint256, uint256, uint256) { return (1, 2, 3); }\n  function f() public payable {\n    (h, , g) = q();\n    try this.f() { h++; } catch { h--; }\n    assembly { let k := keccak256(0, 32) }\n    for (;;) { break; }\n  }\n}\nstruct Empty { uint256 only; }\nfunction free(uint256 a) pure returns (uint256) { return a + 1; }\n",
        )
        .unwrap();
    } else {
        // file names with control and quoting characters (they are copied into the report verbatim)
        for (name, src) in [("Vau\r\nlt.sol", crate::fsx::SRC_PQ), ("tab\tname.sol", crate::fsx::SRC_P), ("sp ace.sol", crate::fsx::SRC_PQ), ("q\"uote'.sol", crate::fsx::SRC_P), ("line\nfeed.sol", crate::fsx::SRC_PQ)] {
            std::fs::write(proj.join(name), src).unwrap();
        }
    }
}

fn init_tree(root: &Path, only_contracts: bool) {
    std::fs::create_dir_all(root.join("out")).unwrap();
    std::fs::create_dir_all(root.join("proj").join("sub")).unwrap();
    std::fs::write(root.join("proj").join("a.sol"), crate::fsx::SRC_P).unwrap();
    std::fs::write(root.join("proj").join("sub").join("b.sol"), crate::fsx::SRC_PQ).unwrap();
    // two initial trees: one in which every directory holds nothing but contracts (the report of an earlier run is
    // then the first file of another kind that ever appears there), one with other files next to them
    if only_contracts {
        std::fs::write(root.join("proj").join("q.sol"), crate::fsx::SRC_PQ).unwrap();
    } else {
        std::fs::write(root.join("proj").join("notes.txt"), b"not solidity").unwrap();
        std::fs::write(root.join("proj").join("sub").join("x.t.sol"), crate::fsx::GARBAGE).unwrap();
    }
    // a configuration file outside the working directories, naming the analysed directory relatively
    std::fs::create_dir_all(root.join("conf")).unwrap();
    let l = |xs: &[&str]| xs.iter().map(|x| format!("\"{}\"", x)).collect::<Vec<_>>().join(", ");
    std::fs::write(
        root.join("conf").join("cfg.toml"),
        format!("path = './proj'\noptimizations = [{}]\nvulnerabilities = [{}]\nqa = [{}]\n", l(crate::dets::OPT_NAMES), l(crate::dets::VULN_NAMES), l(crate::dets::QA_NAMES)),
    )
    .unwrap();
    // a configuration that selects nothing: the run still writes its (empty) report over whatever was there
    std::fs::write(root.join("conf").join("empty.toml"), "path = './proj'\noptimizations = []\nvulnerabilities = []\nqa = []\n").unwrap();
}

/// C12 / C13 at the level of the command-line program: the report is a function of THIS run's findings.  A run whose
/// findings are few or none, made in a working directory in which an earlier run found many, leaves exactly the report that
/// the same run leaves in a fresh working directory (no part, total or entry of the earlier run).
pub fn report_follows_this_run(property: &str) -> (Vec<Violation>, u64) {
    let mut vs = Vec::new();
    let mut runs = 0u64;
    let bin = match bin_path() {
        Some(b) => b,
        None => return (vs, 0),
    };
    let root = scratch(&format!("{}seq", property.to_lowercase()));
    let mk = |d: &str, f: &str, src: &str| {
        std::fs::create_dir_all(root.join(d)).unwrap();
        if !f.is_empty() {
            std::fs::write(root.join(d).join(f), src).unwrap();
        }
    };
    mk("many", "Token.sol", crate::fsx::SRC_PQ);
    mk("many", "Kill.sol", crate::fsx::SRC_SUICIDE);
    mk("gas", "G.sol", "pragma solidity 0.8.19;\ncontract G {\n  function g(uint256 a, uint256 b) public payable returns (bool) {\n    return a >= b + 1;\n  }\n}\n");
    mk("none", "N.sol", crate::fsx::SRC_NONE);
    mk("empty", "", "");
    for later in ["none", "empty", "gas", "many"] {
        for earlier in ["many", "gas", "none"] {
            let shared = root.join(format!("cwd-{}-{}", earlier, later));
            let fresh = root.join(format!("fresh-{}-{}", earlier, later));
            std::fs::create_dir_all(&shared).unwrap();
            std::fs::create_dir_all(&fresh).unwrap();
            let e = root.join(earlier);
            let l = root.join(later);
            let _ = run_bin(&bin, &shared, &["--path", e.to_str().unwrap()]);
            let o1 = run_bin(&bin, &shared, &["--path", l.to_str().unwrap()]);
            let o2 = run_bin(&bin, &fresh, &["--path", l.to_str().unwrap()]);
            runs += 3;
            let a = std::fs::read(shared.join("solstat_report.md")).ok();
            let b = std::fs::read(fresh.join("solstat_report.md")).ok();
            if !completed(o1.code) || !completed(o2.code) || a != b {
                vs.push(Violation {
                    site: "binary:report-of-a-later-run-shows-an-earlier-run".into(),
                    input: format!("run on '{}' after a run on '{}' in the same working directory", later, earlier),
                    expected: "the same report as the run on the later directory leaves in a fresh working directory".into(),
                    observed: format!("exit {:?} / {:?}; report {} bytes against {} bytes", o1.code, o2.code, a.as_ref().map(|x| x.len() as i64).unwrap_or(-1), b.as_ref().map(|x| x.len() as i64).unwrap_or(-1)),
                    size: 2,
                    unit_test: String::new(),
                    extra: json!({}),
                });
            }
        }
    }
    let _ = std::fs::remove_dir_all(&root);
    (vs, runs)
}

pub fn c18(tier: Tier) -> i32 {
    util::quiet();
    let mut run = Run::new("C18", if tier == Tier::Quick { "quick" } else { "thorough" });
    let bin = match bin_path() {
        Some(b) => b,
        None => {
            run.machinery("SOLSTAT_BIN (unhooked binary) not found".into());
            return run.finish();
        }
    };
    let depth = if tier == Tier::Quick { 3 } else { 4 };
    let mut acts: Vec<Act> = Vec::new();
    for c in 0..CWDS.len() {
        acts.push(Act::Run(c));
    }
    // run from the parent directory through a configuration file that lives elsewhere
    acts.push(Act::Run(100));
    // ... and through a configuration file whose three lists are empty
    acts.push(Act::Run(101));
    for e in 0..5 {
        acts.push(Act::Edit(e));
    }
    for c in 0..CWDS.len() {
        for k in 0..4 {
            if c == 3 && k == 1 {
                continue;
            }
            acts.push(Act::Plant(c, k));
        }
    }
    // BFS over histories; a state is the history that reaches it (rebuilt from scratch each time);
    // de-duplicated by the canonical snapshot of the scratch root
    let mut frontier: VecDeque<Vec<Act>> = VecDeque::new();
    frontier.push_back(vec![]);
    let mut seen: HashSet<u64> = HashSet::new();
    let mut histories: Vec<Vec<Act>> = Vec::new();
    // enumerate histories level by level; expansion is decided after executing (needs snapshots), so
    // first collect all action sequences up to `depth` that end in a Run and contain no two edits in a row of the same kind
    fn gen(acts: &[Act], depth: usize, cur: &mut Vec<Act>, out: &mut Vec<Vec<Act>>) {
        if let Some(Act::Run(_)) = cur.last() {
            out.push(cur.clone());
        }
        if cur.len() == depth {
            return;
        }
        for a in acts {
            // pruning that keeps every distinguishable history: no immediate repetition of the same edit / plant
            if cur.last() == Some(a) && !matches!(a, Act::Run(_)) {
                continue;
            }
            cur.push(a.clone());
            gen(acts, depth, cur, out);
            cur.pop();
        }
    }
    let _ = (&mut frontier, &mut seen);
    gen(&acts, depth, &mut Vec::new(), &mut histories);
    // (initial tree, history): every history from the two small trees; histories of <= 2 actions also from a tree whose
    // report is larger than a megabyte and from a tree with control / quoting characters in file names
    let mut jobs: Vec<(usize, usize)> = Vec::new();
    for variant in [2usize, 3, 4, 0, 1] {
        for (k, h) in histories.iter().enumerate() {
            let runs_only = h.iter().all(|a| matches!(a, Act::Run(_)));
            if variant < 2 || ((variant == 3 || variant == 4) && h.len() <= 2) || (variant == 2 && h.len() <= 2 && runs_only) {
                jobs.push((variant, k));
            }
        }
    }
    let res = util::par_map_each(jobs.len(), |ji| {
        let (variant, k) = jobs[ji];
        let h = &histories[k];
        let only_contracts = variant == 1;
        let root = scratch("c18");
        init_tree_variant(&root, variant);
        let mut vs = Vec::new();
        let mut runs = 0u64;
        let mut snap_hash = 0u64;
        for (step, a) in h.iter().enumerate() {
            match a {
                Act::Run(c) => {
                    let before = snapshot(&root);
                    let via_toml = *c >= 100;
                    let cwd_rel = if via_toml { "" } else { CWDS[*c] };
                    let cwd = root.join(cwd_rel);
                    if !cwd.is_dir() {
                        continue;
                    }
                    // the analysed directory is named relatively to the working directory, and the reference run below uses the
                    // same spelling in a copy of the same directory structure (a build may label files by the path it walked)
                    let rel_proj = match cwd_rel {
                        "" => "proj",
                        "out" => "../proj",
                        "proj" => ".",
                        _ => "..",
                    };
                    let run_args: Vec<&str> = if *c == 101 { vec!["--toml", "conf/empty.toml"] } else if via_toml { vec!["--toml", "conf/cfg.toml"] } else { vec!["--path", rel_proj] };
                    let out = run_bin(&bin, &cwd, &run_args);
                    runs += 1;
                    let after = snapshot(&root);
                    let rep_rel = if cwd_rel.is_empty() { "solstat_report.md".to_string() } else { format!("{}/solstat_report.md", cwd_rel) };
                    let hist = format!("{:?} on the initial tree {} (violation at step {})", h, ["with other files", "of contracts only", "with a report of more than a megabyte", "with control and quoting characters in file names", "with contracts in sub-directories only and rarely used constructs"][variant], step);
                    if !completed(out.code) {
                        vs.push(Violation { site: "run:failed".into(), input: hist.clone(), expected: "the run completes (no panic, no signal)".into(), observed: format!("exit {:?} stderr {}", out.code, out.stderr), size: h.len(), unit_test: String::new(), extra: json!({}) });
                        continue;
                    }
                    // (i) + (iv): nothing else changed or appeared
                    for (p, b) in &after {
                        if *p == rep_rel {
                            continue;
                        }
                        match before.get(p) {
                            None => vs.push(Violation { site: "run:created-another-file".into(), input: hist.clone(), expected: format!("only {} is created or replaced", rep_rel), observed: format!("{} appeared", p), size: h.len(), unit_test: String::new(), extra: json!({}) }),
                            Some(old) if old != b => vs.push(Violation { site: "run:modified-an-input".into(), input: hist.clone(), expected: "inputs are byte-for-byte unchanged".into(), observed: format!("{} changed", p), size: h.len(), unit_test: String::new(), extra: json!({}) }),
                            _ => {}
                        }
                    }
                    for p in before.keys() {
                        if !after.contains_key(p) && *p != rep_rel {
                            vs.push(Violation { site: "run:removed-a-file".into(), input: hist.clone(), expected: "nothing is removed".into(), observed: format!("{} disappeared", p), size: h.len(), unit_test: String::new(), extra: json!({}) });
                        }
                    }
                    // (ii) the report exists; (iii) equals the report of a fresh run on a fresh copy of the tree
                    match after.get(&rep_rel) {
                        None => vs.push(Violation { site: "run:no-report".into(), input: hist.clone(), expected: format!("{} exists after the run", rep_rel), observed: "absent".into(), size: h.len(), unit_test: String::new(), extra: json!({}) }),
                        Some(rep) => {
                            let fresh = scratch("c18fresh");
                            // the whole scratch root as it was before the run, minus every solstat_report.md (left-over
                            // or planted): same structure, same relative spelling of the analysed directory
                            for (p, b) in &before {
                                if p == "solstat_report.md" || p.ends_with("/solstat_report.md") {
                                    continue;
                                }
                                if p.ends_with('/') {
                                    std::fs::create_dir_all(fresh.join(p)).unwrap();
                                } else {
                                    if let Some(par) = fresh.join(p).parent() {
                                        std::fs::create_dir_all(par).unwrap();
                                    }
                                    std::fs::write(fresh.join(p), b).unwrap();
                                }
                            }
                            let fcwd = fresh.join(cwd_rel);
                            std::fs::create_dir_all(&fcwd).unwrap();
                            std::fs::create_dir_all(fresh.join("proj")).unwrap();
                            let o2 = run_bin(&bin, &fcwd, &run_args);
                            runs += 1;
                            let want = std::fs::read(fcwd.join("solstat_report.md")).ok();
                            if !completed(o2.code) || want.as_ref() != Some(rep) {
                                let kind = match &want {
                                    Some(w) if rep.len() > w.len() && rep.starts_with(w) => "old-report-tail-survives",
                                    Some(w) if rep.len() > w.len() && rep.ends_with(w) => "appended-to-old-report",
                                    _ => "differs-from-fresh-run",
                                };
                                vs.push(Violation {
                                    site: format!("run:report-{}", kind),
                                    input: hist.clone(),
                                    expected: "the report equals the report of a run on a fresh copy of the current tree from a clean working directory".into(),
                                    observed: format!("report has {} bytes, fresh run has {:?} bytes", rep.len(), want.as_ref().map(|w| w.len())),
                                    size: h.len(),
                                    unit_test: String::new(),
                                    extra: json!({}),
                                });
                            }
                            let _ = std::fs::remove_dir_all(&fresh);
                        }
                    }
                    snap_hash = util::fnv(&format!("{:?}", after.iter().map(|(k, v)| (k.clone(), util::fnv(&String::from_utf8_lossy(v)))).collect::<Vec<_>>()));
                }
                other => apply(&root, other),
            }
        }
        let _ = std::fs::remove_dir_all(&root);
        (vs, runs, snap_hash)
    });
    let mut runs = 0u64;
    let mut finals: HashSet<u64> = HashSet::new();
    for (vs, r, s) in res {
        runs += r;
        finals.insert(s);
        run.merge_violations(vs);
    }
    // determinism self-test of the harness side: replay the first histories
    run.set("states", jobs.len() as u64);
    run.set("transitions", runs);
    run.set("traces_validated_against_impl", runs);
    run.set("evaluations", runs);
    run.set("distinct_nontrivial", finals.len() as u64);
    run.set(
        "rule",
        "states = (initial tree: contracts only / contracts next to other files; for histories of <= 2 runs also a tree whose report exceeds a megabyte, for histories of <= 2 actions also a tree with control and quoting characters in file names) x histories of <= 3 (quick) / 4 (thorough) actions ending in a run, over 22 actions: run the unhooked binary from a directory outside the tree / from the parent of the analysed directory / from the analysed directory itself / from a sub-directory of it / from the parent through a --toml file that lives in another directory and names the tree relatively; edit the tree (add, change, remove a .sol file, make the tree finding-free, leave only gas findings); plant a left-over solstat_report.md (unrelated bytes, 1 MB, a longer stale report) in any of the three working directories. After every run: byte snapshot of the whole scratch root before/after (only <cwd>/solstat_report.md may differ or appear), the report exists, and it is byte-identical to the report of a run on a fresh copy of the current tree from a clean working directory; non-trivial = distinct final snapshots",
    );
    run.set("bound_completed", format!("history length <= {}", depth));
    run.set("samples", json!(histories.iter().step_by(histories.len() / 3 + 1).take(3).map(|h| format!("{:?}", h)).collect::<Vec<_>>()));
    run.assume("byte equality with a fresh run relies on C13 (deterministic rendering)");
    run.finish()
}
