//! Small helpers: chunked parallel map on std threads, panic capture, hashing.

use std::panic::{catch_unwind, AssertUnwindSafe};
use std::sync::atomic::{AtomicUsize, Ordering};

pub fn threads() -> usize {
    std::env::var("VERIF_THREADS").ok().and_then(|s| s.parse().ok()).unwrap_or_else(|| {
        std::thread::available_parallelism().map(|n| n.get()).unwrap_or(4)
    })
}

/// Apply `f` to every index in 0..n on all cores; results are returned in index order.
pub fn par_map<R: Send, F: Fn(usize) -> R + Sync>(n: usize, f: F) -> Vec<R> {
    let nt = threads().max(1).min(n.max(1));
    // small chunks when there are few jobs per thread (jobs of very different cost must not queue up behind one worker)
    par_map_chunked(n, (n / (nt * 16)).clamp(1, 64), f)
}

/// one job at a time per worker: for jobs that are expensive and of very different cost (process runs)
pub fn par_map_each<R: Send, F: Fn(usize) -> R + Sync>(n: usize, f: F) -> Vec<R> {
    par_map_chunked(n, 1, f)
}

fn par_map_chunked<R: Send, F: Fn(usize) -> R + Sync>(n: usize, chunk: usize, f: F) -> Vec<R> {
    let nt = threads().max(1).min(n.max(1));
    let next = AtomicUsize::new(0);
    let mut parts: Vec<Vec<(usize, R)>> = Vec::new();
    std::thread::scope(|s| {
        let mut hs = Vec::new();
        for _ in 0..nt {
            // generous stacks: the subject recurses over the parse tree
            hs.push(std::thread::Builder::new().stack_size(64 << 20).spawn_scoped(s, || {
                let mut out = Vec::new();
                loop {
                    let start = next.fetch_add(chunk, Ordering::Relaxed);
                    if start >= n {
                        break;
                    }
                    for i in start..(start + chunk).min(n) {
                        out.push((i, f(i)));
                    }
                }
                out
            }).expect("cannot spawn worker thread"));
        }
        for h in hs {
            parts.push(h.join().expect("worker thread panicked"));
        }
    });
    let mut all: Vec<(usize, R)> = parts.into_iter().flatten().collect();
    all.sort_by_key(|x| x.0);
    all.into_iter().map(|x| x.1).collect()
}

/// Run `f`, turning a panic into Err(message).  The default panic hook is silenced by `quiet()`.
pub fn guarded<R, F: FnOnce() -> R>(f: F) -> Result<R, String> {
    match catch_unwind(AssertUnwindSafe(f)) {
        Ok(r) => Ok(r),
        Err(e) => {
            let msg = if let Some(s) = e.downcast_ref::<&str>() {
                s.to_string()
            } else if let Some(s) = e.downcast_ref::<String>() {
                s.clone()
            } else {
                "panic".to_string()
            };
            Err(msg)
        }
    }
}

pub fn quiet() {
    std::panic::set_hook(Box::new(|_| {}));
    static ONCE: std::sync::Once = std::sync::Once::new();
    ONCE.call_once(|| {
        if std::env::var("MC_NO_WATCHDOG").is_err() {
            crate::dets::start_watchdog(30, crate::dets::hang_is_machinery);
        }
    });
}

pub fn fnv(s: &str) -> u64 {
    let mut h: u64 = 0xcbf29ce484222325;
    for b in s.as_bytes() {
        h ^= *b as u64;
        h = h.wrapping_mul(0x100000001b3);
    }
    h
}
