//! C19 — findings compose over the top-level items of a file (DESIGN.md section 7, C19).
//!
//! All sequences with repetition of <= 3 items from a template pool; for every detector except the
//! two SafeMath ones, lines(whole file) = ⋃_i lines(file with every other item blanked, line breaks
//! and pragmas kept).

use crate::corpus::Tier;
use crate::dets;
use crate::ev::{Run, Violation};
use crate::util;
use serde_json::json;
use std::collections::{BTreeSet, HashSet};

/// item templates; `#` is replaced by a per-instance suffix so that no identifier is shared
pub fn pool() -> Vec<(&'static str, &'static str)> {
    vec![
        ("ctor-after-function", "contract A# { uint256 public total# ; function f# ( ) external { total# += 1 ; } constructor ( ) { total# = 1 ; } }"),
        ("ctor-first", "contract B# { address owner# ; constructor ( ) { owner# = msg . sender ; } function g# ( ) public payable { } }"),
        ("vars-written", "contract V# { uint256 w# ; uint256 private u# ; uint256 c# = 5 ; function set# ( uint256 x ) internal { w# = x * 2 ; w# ++ ; } }"),
        ("library", "library L# { function _add# ( uint256 a , uint256 b ) internal pure returns ( uint256 ) { return a + b ; } function pub# ( ) public { } }"),
        ("interface", "interface I# { function transfer ( address to , uint256 v ) external returns ( bool ) ; }"),
        ("free-function", "function free# ( uint256 [ ] memory p , uint256 q ) pure returns ( uint256 ) { return p [ 0 ] / q * 4 + q ** 2 ; }"),
        ("packable-struct", "struct S# { uint128 a ; uint256 b ; uint128 c ; }"),
        ("file-constant", "uint256 constant K# = 10 ;"),
        ("selfdestruct", "contract D# { function kill# ( ) external { selfdestruct ( payable ( msg . sender ) ) ; } function safe# ( ) external onlyOwner { selfdestruct ( payable ( msg . sender ) ) ; } }"),
        ("memory-params", "contract M# { function m# ( bytes memory data , string memory s ) external returns ( bytes32 ) { s = \"x\" ; return keccak256 ( data ) ; } }"),
        ("enum", "enum E# { A , B }"),
        ("error-event", "error Er# ( uint256 a ) ; event Ev# ( address indexed a ) ;"),
        ("unchecked", "contract U# { function u# ( uint256 n ) public { unchecked { ++ n ; } for ( uint256 i = 0 ; i < n ; i ++ ) { n -- ; } } }"),
        ("two-functions", "contract T# { function one# ( address a ) private { require ( a != address ( 0 ) && a != address ( this ) , \"zero~address~is~not~allowed~as~a~parameter\" ) ; } function _two# ( bool b ) external { if ( b == true ) { } } }"),
        ("single-narrow-var", "contract O# { address owner# ; }"),
        ("optimal-pair", "contract P# { uint256 total# ; uint96 fee# ; }"),
        ("packable-contract", "contract Q# { uint128 a# ; uint256 b# ; uint128 c# ; }"),
        ("require-token", "contract R# { function pay# ( address t , uint256 v ) external { require ( v >= 1 , \"low\" ) ; I0 ( t ) . transfer ( msg . sender , v ) ; } }"),
        ("auth-checked", "contract G# { address o# ; modifier auth ( ) { require ( msg . sender == o# ) ; _ ; } function stop# ( ) external auth { selfdestruct ( payable ( o# ) ) ; } }"),
        ("auth-unchecked", "contract H# { modifier auth ( ) { _ ; } function stop# ( ) external auth { selfdestruct ( payable ( address ( 0 ) ) ) ; } }"),
        ("wrapped-division", "contract W# { function w# ( uint256 a , uint256 b , uint256 c ) external returns ( uint256 ) { return a / b * c ; } function v# ( ) external { } constructor ( ) { } }"),
        ("same-struct-name", "contract Y# { struct Config { bool a ; uint256 b ; bool c ; } }"),
        ("interface-struct", "interface Z# { struct Params { uint128 a ; uint256 b ; uint128 c ; } function q# ( ) external ; }"),
        ("abstract", "abstract contract X# { uint256 internal x# ; function _h# ( ) public virtual ; modifier only# ( ) { _ ; } }"),
        // items that refer by NAME to a type declared in another item (fixed names, so the reference resolves when both
        // are in the file): the verdict on the referring item must not depend on whether the declaration is present
        ("named-enum", "enum Kind { Spot , Forward }"),
        ("named-value-type", "type Price is uint128 ;"),
        ("struct-of-enum-tail", "struct Pe# { uint248 size ; Kind kind ; uint8 lev ; }"),
        ("struct-of-enum-ends", "struct Re# { Kind s ; uint256 amount ; Kind h ; }"),
        ("struct-of-value-type", "struct Tv# { Price bid ; uint256 mid ; Price ask ; }"),
        ("contract-of-named-types", "contract Cn# { Kind a# ; uint256 b# ; Price c# ; S0 d# ; uint128 e# ; }"),
        // doc comments travel with the item they are written in (a comment token is one line of the item)
        ("natspec-before-variable", "contract Nv# { function a# ( ) public payable { } ///~@inheritdoc~IVault uint256 public v# ; }"),
        ("natspec-before-function", "contract Nf# { /**~@custom:oz-upgrades-unsafe-allow~selfdestruct~*/ function k# ( ) external { selfdestruct ( payable ( address ( 0 ) ) ) ; } ///~@dev~x }"),
        ("arith-in-initialisers", "contract Ia# { uint256 public constant P# = 7 * 86400 ; uint256 x# = 2 ** 8 + 1 ; function f# ( ) public payable { } }"),
        ("arith-in-file-constant", "uint256 constant Fc# = 7 * 86400 + 1 ;"),
        ("arith-in-base-args", "contract Ba# is A0 ( 1 + 2 ) { }"),
        ("prefix-increments", "contract Pi# { uint256 votes# ; function p# ( uint256 k ) public { ++ k ; -- k ; ++ votes# ; } }"),
        ("free-prefix-increment", "function fp# ( uint256 left ) pure returns ( uint256 ) { -- left ; return left ; }"),
        // multi-byte characters in one item (byte offsets and character offsets differ from there on)
        ("multibyte-comment", "contract Mb# { /*~\u{e9}\u{e9}\u{e9}~\u{4e2d}\u{6587}\u{4e2d}\u{6587}\u{4e2d}\u{6587}\u{4e2d}\u{6587}~\u{1f600}\u{1f600}\u{1f600}\u{1f600}\u{1f600}\u{1f600}\u{1f600}\u{1f600}~\u{43f}\u{440}\u{438}\u{432}\u{435}\u{442}~*/ function mb# ( ) public payable { } string s# = unicode\"\u{1f512}\u{1f512}\u{1f512}\u{1f512}\u{1f512}\u{1f512}\" ; }"),
        // locals and parameters of the same NAME in different items (fixed names): what one item's function does with its
        // local says nothing about another item's local
        ("local-from-division", "library Ld# { function quote# ( uint256 reserveOut , uint256 reserveIn ) internal pure returns ( uint256 ) { uint256 rate = reserveOut / reserveIn ; uint256 [ ] memory items ; items [ 0 ] = rate ; return rate ; } }"),
        ("local-same-name-product", "contract Lp# { function reward# ( uint256 stake , uint256 rate , uint256 [ ] memory items ) external payable returns ( uint256 ) { return rate * stake ; } }"),
        // a function NAME that also occurs in another item (fixed names): a call of `process` in one item says nothing about the
        // function `process` of another item
        ("public-memory-function", "contract Pm# { function process ( bytes memory data ) public payable returns ( uint256 ) { return data . length ; } }"),
        ("caller-of-same-name", "contract Ca# { function run# ( bytes memory blob ) external payable { process ( blob ) ; } function process ( bytes memory inner ) internal { inner = inner ; } }"),
        // an assignment that is not inside any function: in the initialiser of a state variable, in the arguments of a base
        // (what another item's constructor does must not make it a constructor assignment)
        ("assignment-in-initialiser", "contract Ai# { uint256 x# ; uint256 y# = ( x# = 5 ) ; }"),
        ("assignment-in-base-arguments", "contract Ab# is A0 ( z# = 1 ) { uint256 z# ; }"),
        // loops with missing parts in one item, a length-bounded loop in another
        ("for-without-condition", "library Fw# { function w# ( uint256 n ) internal { for ( uint256 i = 0 ; ; i ++ ) { if ( i >= n ) { break ; } } for ( ; ; ) { break ; } } }"),
        ("cache-length-loop", "contract Cl# { uint256 [ ] members# ; function c# ( ) public { for ( uint256 i = 0 ; i < members# . length ; i ++ ) { } } }"),
        // a contract without constructor that writes its variables only in receive / fallback / a modifier
        ("writes-in-receive-fallback-modifier", "contract Wr# { uint256 r# ; uint256 f# ; uint256 m# ; receive ( ) external payable { r# = 1 ; } fallback ( ) external { f# = 2 ; } modifier mm# ( ) { m# = 3 ; _ ; } }"),
        ("library-of-named-struct", "library Ln# { struct Kind { uint128 a ; uint256 b ; uint128 c ; } function _k# ( Price p ) internal { } }"),
    ]
}

fn instantiate(tpl: &str, suffix: &str) -> Vec<String> {
    // '~' stands for a blank inside a string literal (tokens are separated by blanks)
    tpl.split(' ').filter(|t| !t.is_empty()).map(|t| t.replace('#', suffix).replace('~', " ")).collect()
}

fn render(tokens: &[Option<&String>]) -> String {
    let mut s = String::new();
    for t in tokens {
        if let Some(t) = t {
            s.push_str(t);
        }
        s.push('\n');
    }
    s
}

struct Out {
    violations: Vec<Violation>,
    calls: u64,
    outcomes: Vec<u64>,
    parsed: u64,
}

fn check(seq: &[usize], pool: &[(&'static str, &'static str)], pragma_pos: usize, dets_: &[dets::Detector]) -> Out {
    let mut out = Out { violations: Vec::new(), calls: 0, outcomes: Vec::new(), parsed: 0 };
    let pragma: Vec<String> = ["pragma", "solidity", "0.8.19", ";"].iter().map(|s| s.to_string()).collect();
    let items: Vec<Vec<String>> = seq.iter().enumerate().map(|(k, &i)| instantiate(pool[i].1, &k.to_string())).collect();
    // layout of the whole file: segments in order; the pragma is segment `pragma_pos`
    let mut segments: Vec<(bool, &Vec<String>)> = Vec::new();
    for (k, it) in items.iter().enumerate() {
        if k == pragma_pos {
            segments.push((true, &pragma));
        }
        segments.push((false, it));
    }
    if pragma_pos >= items.len() {
        segments.push((true, &pragma));
    }
    let whole: Vec<Option<&String>> = segments.iter().flat_map(|(_, s)| s.iter().map(Some)).collect();
    let whole_text = render(&whole);
    if solang_parser::parse(&whole_text, 0).is_err() {
        out.violations.push(Violation { site: "MACHINERY".into(), input: whole_text, expected: String::new(), observed: "template sequence does not parse".into(), size: 0, unit_test: String::new(), extra: json!({}) });
        return out;
    }
    out.parsed += 1;
    let mut singles: Vec<String> = Vec::new();
    let mut item_idx = 0;
    let n_items = items.len();
    for target in 0..n_items {
        let mut toks: Vec<Option<&String>> = Vec::new();
        item_idx = 0;
        for (is_pragma, seg) in &segments {
            if *is_pragma {
                toks.extend(seg.iter().map(Some));
            } else {
                if item_idx == target {
                    toks.extend(seg.iter().map(Some));
                } else {
                    toks.extend(seg.iter().map(|_| None));
                }
                item_idx += 1;
            }
        }
        let t = render(&toks);
        if solang_parser::parse(&t, 0).is_ok() {
            out.parsed += 1;
        }
        singles.push(t);
    }
    let _ = item_idx;
    for d in dets_ {
        out.calls += 1;
        let w = match dets::run_guarded(d, &whole_text, 0) {
            Ok(w) => w,
            Err(_) => continue,
        };
        let mut union: BTreeSet<i32> = BTreeSet::new();
        let mut ok = true;
        for s in &singles {
            out.calls += 1;
            match dets::run_guarded(d, s, 0) {
                Ok(r) => union.extend(r),
                Err(_) => ok = false,
            }
        }
        if !ok {
            continue;
        }
        out.outcomes.push(util::fnv(&format!("{}:{:?}", d.name, w)));
        if w != union {
            let extra: Vec<i32> = w.difference(&union).copied().collect();
            let lost: Vec<i32> = union.difference(&w).copied().collect();
            out.violations.push(Violation {
                site: format!("{}:{}", d.name, if !extra.is_empty() { "leak" } else { "suppression" }),
                input: whole_text.replace('\n', " "),
                expected: format!("lines {:?} = union of the per-item results", union),
                observed: format!("lines {:?} for the whole file (extra {:?}, lost {:?}); items {:?}, pragma at position {}", w, extra, lost, seq.iter().map(|&i| pool[i].0).collect::<Vec<_>>(), pragma_pos),
                size: whole_text.len(),
                unit_test: dets::unit_test_for(d, &whole_text, "compare with the same file in which all but one top-level item are blanked"),
                extra: json!({"items": seq.iter().map(|&i| pool[i].0).collect::<Vec<_>>()}),
            });
        }
    }
    out
}

/// Two items whose flagged constructs lie exactly 65536 (and 2 x 65536) bytes apart, with a comment of computed length
/// between them: a key derived from the low 16 bits of an offset makes one item's construct stand for the other's.
fn aligned_pairs(dets_: &[dets::Detector]) -> Vec<Out> {
    let pairs: [(&str, &str, &str); 3] = [
        ("contract U0 { function u0 ( uint256 n ) public { unchecked { ++ n ; } } }", "contract P1 { function p1 ( uint256 k ) public { ++ k ; } }", "++"),
        ("contract A0 { function a0 ( address t ) public { IERC20 ( t ) . transfer ( t , 1 ) ; } }", "contract B1 { function b1 ( address t ) public { IVault ( t ) . transfer ( t , 1 ) ; } }", "IERC20"),
        ("contract D0 { uint256 s0 ; function d0 ( uint256 a ) public { s0 = a ; } }", "contract E1 { uint256 s1 ; constructor ( ) { s1 = 1 ; } }", "s0"),
    ];
    let mut outs = Vec::new();
    for (a, b, mark) in pairs {
        for multiple in [1usize, 2] {
            for (first, second) in [(a, b), (b, a)] {
                let ta: Vec<String> = first.split(' ').map(|x| x.to_string()).collect();
                let tb: Vec<String> = second.split(' ').map(|x| x.to_string()).collect();
                let head = "pragma\nsolidity\n0.8.19\n;\n";
                let ra: String = ta.iter().map(|t| format!("{}\n", t)).collect();
                let rb: String = tb.iter().map(|t| format!("{}\n", t)).collect();
                // offset of the marked token in each rendered item (the second item's counterpart sits at the same token index
                // when the shapes agree, otherwise at its own first operator of the same spelling)
                let key = |toks: &Vec<String>, r: &String| -> Option<usize> {
                    let idx = toks.iter().position(|t| t == mark || (mark == "IERC20" && t == "IVault") || (mark == "s0" && t == "s1") || t == "++")?;
                    let _ = r;
                    Some(toks[..idx].iter().map(|t| t.len() + 1).sum())
                };
                let (oa, ob) = match (key(&ta, &ra), key(&tb, &rb)) {
                    (Some(x), Some(y)) => (x, y),
                    _ => continue,
                };
                // whole = head + ra + filler + "\n" + rb ; distance = (ra.len() - oa) + filler.len() + 1 + ob
                let base = ra.len() - oa + 1 + ob;
                let want = 65536 * multiple;
                if base + 4 > want {
                    continue;
                }
                let filler = format!("/*{}*/", "f".repeat(want - base - 4));
                let whole = format!("{}{}{}\n{}", head, ra, filler, rb);
                let blank = |r: &String| -> String { r.chars().map(|c| if c == '\n' { '\n' } else { ' ' }).collect::<String>().lines().map(|_| "\n").collect() };
                let only_a = format!("{}{}{}\n{}", head, ra, filler, blank(&rb));
                let only_b = format!("{}{}{}\n{}", head, blank(&ra), filler, rb);
                let mut out = Out { violations: Vec::new(), calls: 0, outcomes: Vec::new(), parsed: 0 };
                if solang_parser::parse(&whole, 0).is_err() || solang_parser::parse(&only_a, 0).is_err() || solang_parser::parse(&only_b, 0).is_err() {
                    out.violations.push(Violation { site: "MACHINERY".into(), input: format!("{} | {}", first, second), expected: String::new(), observed: "aligned pair does not parse".into(), size: 0, unit_test: String::new(), extra: json!({}) });
                    outs.push(out);
                    continue;
                }
                out.parsed += 3;
                for d in dets_ {
                    out.calls += 3;
                    let (w, x, y) = match (dets::run_guarded(d, &whole, 0), dets::run_guarded(d, &only_a, 0), dets::run_guarded(d, &only_b, 0)) {
                        (Ok(w), Ok(x), Ok(y)) => (w, x, y),
                        _ => continue,
                    };
                    let union: BTreeSet<i32> = x.union(&y).copied().collect();
                    out.outcomes.push(util::fnv(&format!("aligned:{}:{:?}", d.name, w)));
                    if w != union {
                        out.violations.push(Violation {
                            site: format!("{}:{}", d.name, if w.len() > union.len() { "leak" } else { "suppression" }),
                            input: format!("{} /* {} bytes of comment */ {}", first, filler.len(), second),
                            expected: format!("lines {:?} = union of the per-item results", union),
                            observed: format!("lines {:?} for the whole file; the marked constructs of the two items lie exactly {} bytes apart", w, want),
                            size: whole.len(),
                            unit_test: String::new(),
                            extra: json!({"distance": want}),
                        });
                    }
                }
                outs.push(out);
            }
        }
    }
    outs
}

pub fn run(tier: Tier) -> i32 {
    util::quiet();
    let mut run = Run::new("C19", if tier == Tier::Quick { "quick" } else { "thorough" });
    let dets_: Vec<_> = dets::all().into_iter().filter(|d| !d.name.starts_with("safe_math")).collect();
    if dets_.len() != 28 {
        run.machinery(format!("expected 28 detectors, got {}", dets_.len()));
    }
    let pool = pool();
    let n = pool.len();
    let mut seqs: Vec<(Vec<usize>, usize)> = Vec::new();
    for a in 0..n {
        for b in 0..n {
            for pp in [0usize, 1, 2] {
                seqs.push((vec![a, b], pp));
            }
        }
    }
    for a in 0..n {
        for b in 0..n {
            for c in 0..n {
                if tier == Tier::Quick && (a * 7 + b * 3 + c) % 4 != 0 {
                    continue;
                }
                seqs.push((vec![a, b, c], 0));
                if tier == Tier::Thorough {
                    seqs.push((vec![a, b, c], 3));
                }
            }
        }
    }
    // sequences of FOUR items over the templates that differ in which members they have (functions, a constructor first / last,
    // variables only, none): a running count over the members of the file must start again with every contract
    {
        let sub: Vec<usize> = ["ctor-after-function", "ctor-first", "single-narrow-var", "interface", "library", "abstract", "enum"].iter().filter_map(|nm| pool.iter().position(|(k, _)| k == nm)).collect();
        for &a in &sub {
            for &b in &sub {
                for &c in &sub {
                    for &d in &sub {
                        seqs.push((vec![a, b, c, d], 0));
                    }
                }
            }
        }
    }
    let res = util::par_map(seqs.len(), |i| check(&seqs[i].0, &pool, seqs[i].1, &dets_));
    let aligned = aligned_pairs(&dets_);
    let mut calls = 0u64;
    let mut parsed = 0u64;
    let mut outcomes: HashSet<u64> = HashSet::new();
    for o in &res {
        calls += o.calls;
        parsed += o.parsed;
        outcomes.extend(o.outcomes.iter().copied());
    }
    for o in res.into_iter().chain(aligned) {
        for v in o.violations {
            if v.site == "MACHINERY" {
                run.machinery(format!("item sequence does not parse: {}", crate::ev::one_line(&v.input)));
            } else {
                run.violation(v);
            }
        }
    }
    run.set("states", seqs.len() as u64);
    run.set("transitions", calls);
    run.set("traces_validated_against_impl", parsed);
    run.set("evaluations", calls);
    run.set("distinct_nontrivial", outcomes.len() as u64);
    run.set("item_templates", n as u64);
    run.set("rule", "states = files built from all sequences with repetition of 2 items (x pragma first / between / last) and of 3 items (quick: every 4th; thorough: all, pragma first and last) from a pool of 48 item templates instantiated with fresh identifier suffixes; transitions = detector calls on the whole file and on each item-wise blanked file (28 detectors); oracle = set equality of the whole-file lines with the union of the per-item lines; non-trivial = distinct (detector, whole-file result) outcomes");
    run.set("bound_completed", if tier == Tier::Quick { "all pairs x 3 pragma positions; every 4th triple" } else { "all pairs and all triples" });
    run.set("samples", json!(seqs.iter().step_by(seqs.len() / 3 + 1).take(3).map(|(s, p)| json!({"items": s.iter().map(|&i| pool[i].0).collect::<Vec<_>>(), "pragma_position": p})).collect::<Vec<_>>()));
    run.finish()
}
