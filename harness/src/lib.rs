pub mod c01;
pub mod corpus;
pub mod dets;
pub mod ev;
pub mod rtree;
pub mod synth;
pub mod util;
