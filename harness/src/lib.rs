pub mod corpus;
pub mod rtree;
pub mod synth;
pub mod util;
