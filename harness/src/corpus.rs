//! Assembly of the enumerated program families Σ_A, Σ_B, Σ_C, Σ_D, Σ_T (DESIGN.md section 4.3).

use crate::synth::P::{C, T};
use crate::synth::*;
use std::collections::HashSet;

#[derive(Clone, Copy, PartialEq, Eq, Debug)]
pub enum Tier {
    Quick,
    Thorough,
}

pub struct Corpus {
    pub progs: Vec<Prog>,
    pub generated: usize,
    pub families: Vec<(String, usize)>,
}

pub const CHUNK: usize = 100_000;

struct Acc<'s> {
    seen: HashSet<u64>,
    progs: Vec<Prog>,
    generated: usize,
    distinct: usize,
    families: Vec<(String, usize)>,
    sink: Option<&'s mut dyn FnMut(Vec<Prog>)>,
}

impl<'s> Acc<'s> {
    fn new() -> Acc<'s> {
        Acc { seen: HashSet::new(), progs: Vec::new(), generated: 0, distinct: 0, families: Vec::new(), sink: None }
    }
    fn add(&mut self, fam: &str, tag: String, f: Frag) {
        self.generated += 1;
        let p = Prog::from(f, format!("{}:{}", fam, tag));
        if self.seen.insert(p.key()) {
            self.progs.push(p);
            self.distinct += 1;
            match self.families.last_mut() {
                Some((n, c)) if n == fam => *c += 1,
                _ => self.families.push((fam.to_string(), 1)),
            }
            if self.progs.len() >= CHUNK {
                self.flush();
            }
        }
    }
    fn flush(&mut self) {
        if let Some(sink) = self.sink.as_mut() {
            if !self.progs.is_empty() {
                sink(std::mem::take(&mut self.progs));
            }
        }
    }
}

/// summary of a streamed corpus
pub struct Summary {
    pub generated: usize,
    pub distinct: usize,
    pub families: Vec<(String, usize)>,
}

fn in_contract(part: Frag) -> Frag {
    file(vec![pragma(PRAGMA), contract("C", vec![part])])
}
fn in_func(stmt: Frag) -> Frag {
    in_contract(func("f", &["public"], vec![stmt]))
}

/// file-level part alternatives
pub fn file_parts() -> Vec<(String, Frag)> {
    let mut v: Vec<(String, Frag)> = Vec::new();
    let mut add = |n: &str, f: Frag| v.push((n.to_string(), f));
    add("pragma.solidity", pragma("^0.8.0"));
    add("pragma.experimental", node("PragmaDirective", vec![T("pragma"), T("experimental"), T("ABIEncoderV2"), T(";")]));
    add("pragma.abicoder", node("PragmaDirective", vec![T("pragma"), T("abicoder"), T("v2"), T(";")]));
    add("import.plain", node("ImportDirective", vec![T("import"), T("\"a.sol\""), T(";")]));
    add("import.as", node("ImportDirective", vec![T("import"), T("\"a.sol\""), T("as"), T("A"), T(";")]));
    add("import.star", node("ImportDirective", vec![T("import"), T("*"), T("as"), T("A"), T("from"), T("\"a.sol\""), T(";")]));
    add(
        "import.rename",
        node(
            "ImportDirective",
            vec![T("import"), T("{"), T("X"), T(","), T("Y"), T("as"), T("Z"), T("}"), T("from"), T("\"a.sol\""), T(";")],
        ),
    );
    add("enum", node("EnumDefinition", vec![T("enum"), T("En"), T("{"), T("A"), T(","), T("B"), T("}")]));
    add("enum.empty", node("EnumDefinition", vec![T("enum"), T("En0"), T("{"), T("}")]));
    add(
        "struct",
        node("StructDefinition", vec![T("struct"), T("St"), T("{"), C(ty("uint128")), T("a"), T(";"), C(ty("bool")), T("b"), T(";"), T("}")]),
    );
    add("struct.empty", node("StructDefinition", vec![T("struct"), T("St0"), T("{"), T("}")]));
    add("event", node("EventDefinition", vec![T("event"), T("Ev"), T("("), C(ty("uint256")), T("indexed"), T("a"), T(")"), T(";")]));
    add("event.empty", node("EventDefinition", vec![T("event"), T("Ev0"), T("("), T(")"), T("anonymous"), T(";")]));
    add("error", node("ErrorDefinition", vec![T("error"), T("Er"), T("("), C(ty("uint256")), T("a"), T(","), C(ty("bool")), T(")"), T(";")]));
    add("error.empty", node("ErrorDefinition", vec![T("error"), T("Er0"), T("("), T(")"), T(";")]));
    add("free.function", func("g", &["pure"], vec![expr_stmt(var("a"))]));
    add("free.function.nobody", node("FunctionDefinition", vec![T("function"), T("g2"), T("("), T(")"), T(";")]));
    add("file.var.const", node("VariableDefinition", vec![C(ty("uint256")), T("constant"), T("K"), T("="), C(num("1")), T(";")]));
    add("file.var.plain", node("VariableDefinition", vec![C(ty("address")), T("fv"), T(";")]));
    add("file.var.error", node("VariableDefinition", vec![C(var_error()), T("ev"), T(";")]));
    add(
        "file.var.fntype",
        node("VariableDefinition", vec![C(nodep("Type", 1, vec![T("function"), T("("), T(")"), T("external")])), T("fp"), T(";")]),
    );
    add("typedef", node("TypeDefinition", vec![T("type"), T("U"), T("is"), C(ty("uint256")), T(";")]));
    add("using.lib", node("Using", vec![T("using"), T("Lib"), T("for"), C(ty("uint256")), T(";")]));
    add("using.star", node("Using", vec![T("using"), T("Lib"), T("for"), T("*"), T(";")]));
    add("using.fns.global", node("Using", vec![T("using"), T("{"), T("f"), T("}"), T("for"), C(var("U")), T("global"), T(";")]));
    add("using.safemath", node("Using", vec![T("using"), T("SafeMath"), T("for"), C(ty("uint256")), T(";")]));
    add("stray", node("StraySemicolon", vec![T(";")]));
    add("contract.empty", contract("E", vec![]));
    add("abstract.empty", contract_kw(&["abstract", "contract"], "Ab", vec![], vec![]));
    add("interface", contract_kw(&["interface"], "I", vec![], vec![node("FunctionDefinition", vec![T("function"), T("f"), T("("), T(")"), T("external"), T(";")])]));
    add("library", contract_kw(&["library"], "Lb", vec![], vec![func("lf", &["internal"], vec![])]));
    add("contract.bases", contract_kw(&["contract"], "D", vec![seq(vec![T("A")]), seq(vec![T("B"), T("("), T(")")])], vec![]));
    v
}

fn var_error() -> Frag {
    nodep("Variable", 0, vec![T("error")])
}

/// contract-level part alternatives (with attribute combinations)
pub fn contract_parts() -> Vec<(String, Frag)> {
    let mut v: Vec<(String, Frag)> = Vec::new();
    let mut add = |n: &str, f: Frag| v.push((n.to_string(), f));
    add("enum", node("EnumDefinition", vec![T("enum"), T("En"), T("{"), T("A"), T("}")]));
    add(
        "struct",
        node("StructDefinition", vec![T("struct"), T("St"), T("{"), C(ty("uint128")), T("a"), T(";"), C(ty("uint256")), T("b"), T(";"), C(ty("uint128")), T("c"), T(";"), T("}")]),
    );
    add("event", node("EventDefinition", vec![T("event"), T("Ev"), T("("), C(ty("uint256")), T(")"), T(";")]));
    add("error", node("ErrorDefinition", vec![T("error"), T("Er"), T("("), T(")"), T(";")]));
    add("typedef", node("TypeDefinition", vec![T("type"), T("U"), T("is"), C(ty("uint8")), T(";")]));
    add("using", node("Using", vec![T("using"), T("L"), T("."), T("Lib"), T("for"), C(ty("uint256")), T(";")]));
    add("using.star", node("Using", vec![T("using"), T("Lib"), T("for"), T("*"), T(";")]));
    add("stray", node("StraySemicolon", vec![T(";")]));
    // state variables: visibility x mutability
    for vis in ["", "public", "private", "internal", "external"] {
        for m in ["", "constant", "immutable"] {
            for nm in ["v", "_v"] {
                let mut p = vec![C(ty("uint256"))];
                if !vis.is_empty() {
                    p.push(T(vis));
                }
                if !m.is_empty() {
                    p.push(T(m));
                }
                p.push(T(nm));
                if m == "constant" {
                    p.push(T("="));
                    p.push(C(num("1")));
                }
                p.push(T(";"));
                add(&format!("var.{}.{}.{}", vis, m, nm), node("VariableDefinition", p));
            }
        }
    }
    add("var.override", node("VariableDefinition", vec![C(ty("uint256")), T("public"), T("override"), T("ov"), T(";")]));
    add(
        "var.override.list",
        node("VariableDefinition", vec![C(ty("uint256")), T("public"), T("override"), T("("), T("A"), T(","), T("L"), T("."), T("B"), T(")"), T("ov2"), T(";")]),
    );
    add("var.mapping", node("VariableDefinition", vec![C(nodep("Type", 0, vec![T("mapping"), T("("), C(ty("address")), T("=>"), C(ty("uint256")), T(")")])), T("mp"), T(";")]));
    add("var.array", node("VariableDefinition", vec![C(nodep("ArraySubscript", 0, vec![C(ty("uint256")), T("["), T("]")])), T("ar"), T(";")]));
    add("var.user", node("VariableDefinition", vec![C(var("St")), T("us"), T(";")]));
    add("var.fntype", node("VariableDefinition", vec![C(nodep("Type", 1, vec![T("function"), T("("), T(")"), T("external"), T("internal")])), T("fp"), T(";")]));
    // functions: kind x visibility x mutability x body
    for vis in ["", "public", "external", "internal", "private"] {
        for m in ["", "view", "pure", "payable", "constant"] {
            for body in [true, false] {
                for nm in ["f", "_f"] {
                    let mut p = vec![T("function"), T(nm), T("("), T(")")];
                    if !vis.is_empty() {
                        p.push(T(vis));
                    }
                    if !m.is_empty() {
                        p.push(T(m));
                    }
                    if body {
                        p.push(C(block(vec![])));
                    } else {
                        p.push(T(";"));
                    }
                    add(&format!("fn.{}.{}.{}.{}", vis, m, body, nm), node("FunctionDefinition", p));
                }
            }
        }
    }
    for (kw, attrs) in [
        ("constructor", vec![]),
        ("constructor", vec!["public"]),
        ("constructor", vec!["payable"]),
        ("constructor", vec!["internal"]),
        ("fallback", vec!["external"]),
        ("fallback", vec!["external", "payable"]),
        ("receive", vec!["external", "payable"]),
        ("receive", vec!["external"]),
    ] {
        let mut p = vec![T(kw), T("("), T(")")];
        for a in &attrs {
            p.push(T(a));
        }
        p.push(C(block(vec![])));
        add(&format!("{}.{}", kw, attrs.join("+")), node("FunctionDefinition", p));
    }
    add("modifier", node("FunctionDefinition", vec![T("modifier"), T("md"), T("("), T(")"), C(block(vec![expr_stmt(var("_"))]))]));
    add("modifier.noparams.nobody", node("FunctionDefinition", vec![T("modifier"), T("md2"), T(";")]));
    add("modifier.virtual", node("FunctionDefinition", vec![T("modifier"), T("md3"), T("virtual"), C(block(vec![]))]));
    add(
        "fn.returns.return",
        node("FunctionDefinition", vec![T("function"), T("rr"), T("("), T(")"), T("public"), T("return"), T("("), C(ty("uint256")), T(")"), C(block(vec![]))]),
    );
    add(
        "fn.virtual.override.immutable",
        node(
            "FunctionDefinition",
            vec![T("function"), T("vo"), T("("), T(")"), T("external"), T("virtual"), T("override"), T("immutable"), C(block(vec![]))],
        ),
    );
    add(
        "fn.oldstyle",
        node("FunctionDefinition", vec![T("function"), T("("), T(")"), T("external"), T("payable"), C(block(vec![]))]),
    );
    add(
        "fn.namevalue",
        node("FunctionDefinition", vec![T("function"), T("nvf"), T("("), T(")"), T("public"), T("nv"), T("="), C(num("5")), C(block(vec![]))]),
    );
    v
}

pub fn leaf_kinds() -> Vec<Frag> {
    vec![
        var("x"),
        var("y"),
        num("2"),
        num("3"),
        num("0"),
        nodep("BoolLiteral", 0, vec![T("true")]),
        call(ty("address"), vec![num("0")]),
        subscript(var("arr"), num("0")),
        member(var("arr"), "length"),
        member(var("msg"), "sender"),
        strlit("s"),
        call(var("f"), vec![var("x")]),
    ]
}

pub fn build(tier: Tier) -> Corpus {
    let mut all: Vec<Prog> = Vec::new();
    let sum = stream(tier, &mut |chunk| all.extend(chunk));
    Corpus { progs: all, generated: sum.generated, families: sum.families }
}

/// Generate the corpus in chunks of at most CHUNK programs (bounded memory); every chunk is handed
/// to `sink` and dropped by the caller when done.
pub fn stream(tier: Tier, sink: &mut dyn FnMut(Vec<Prog>)) -> Summary {
    let mut acc = Acc::new();
    acc.sink = Some(sink);
    fill(tier, &mut acc);
    acc.flush();
    Summary { generated: acc.generated, distinct: acc.distinct, families: acc.families.clone() }
}

fn fill(tier: Tier, acc: &mut Acc) {
    let ealts = expr_alts();
    let salts = stmt_alts();
    let simples = simple_alts();
    let ctxs = expr_contexts();
    let all = |_: &EAlt| true;

    // ---- Σ_A(1): every expression alternative in every non-expression-owned expression hole
    let e1 = expr_chains(&ealts, 1, &all);
    for c in &ctxs {
        if let H::E(class) = c.hole {
            for (n, f) in &e1 {
                acc.add("A1", format!("{}<-{}", c.name, n), (c.wrap)(fit(class, f)));
            }
        }
    }
    for (n, f) in stmt_expr_holes(&salts, &simples, &e1) {
        acc.add("A1s", n, in_func(f));
    }
    // name-value attribute: literal class only
    for a in ealts.iter().filter(|a| {
        a.name.starts_with("BoolLiteral")
            || a.name.starts_with("NumberLiteral")
            || a.name.starts_with("RationalNumberLiteral")
            || a.name.starts_with("HexNumberLiteral")
            || a.name.starts_with("StringLiteral")
            || a.name.starts_with("HexLiteral")
            || a.name.starts_with("AddressLiteral")
    }) {
        acc.add("A1nv", a.name.clone(), namevalue_ctx(build_e(a, None)));
    }

    // ---- Σ_B(2): alternative in every expression hole of every alternative, fixed statement context
    let e2 = expr_chains(&ealts, 2, &all);
    for (n, f) in &e2 {
        acc.add("B2", n.clone(), in_func(expr_stmt(f.clone())));
    }

    // ---- Σ_C: statement chains with a marker expression, in every function kind
    let marker = vec![("mark".to_string(), expr_stmt(bin("Add", "+", 5, 5, 4, var("m1"), var("m2"))))];
    let fk = func_kinds();
    // increments / decrements as innermost statements (the unchecked exemption is about nesting)
    let incdec = vec![
        ("preinc".to_string(), expr_stmt(nodep("PreIncrement", 2, vec![T("++"), C(var("k"))]))),
        ("postdec".to_string(), expr_stmt(nodep("PostDecrement", 0, vec![C(var("k")), T("--")]))),
    ];
    for depth in 1..=2 {
        for (n, f) in stmt_chains(&salts, &simples, depth, &incdec) {
            acc.add("Ci", n.clone(), in_func(f.clone()));
            // the same chain inside an unchecked block, followed by a sibling after it
            let u = node("Block", vec![T("unchecked"), T("{"), C(f.clone()), C(expr_stmt(nodep("PreDecrement", 2, vec![T("--"), C(var("j"))]))), T("}")]);
            acc.add("Ci", format!("unchecked<-{}", n), in_func(u));
            // ... and a plain increment AFTER a (closed) unchecked block, in the same body: the exemption ends with the block
            let closed = node("Block", vec![T("unchecked"), T("{"), C(expr_stmt(nodep("PreIncrement", 2, vec![T("++"), C(var("u"))]))), T("}")]);
            let both = block(vec![closed, f]);
            acc.add("Ci", format!("after-unchecked<-{}", n), in_func(both));
        }
    }
    for depth in 1..=2 {
        for (n, f) in stmt_chains(&salts, &simples, depth, &marker) {
            for (kn, kw) in &fk {
                if depth == 2 && *kn != "function" && *kn != "modifier" && *kn != "free" {
                    continue;
                }
                acc.add(&format!("C{}", depth), format!("{}@{}", n, kn), kw(f.clone()));
            }
        }
    }
    // every statement alternative (with minimal fillers) in every statement hole of every alternative
    let stmt_leaves: Vec<(String, Frag)> = salts.iter().map(|a| (a.name.clone(), build_s(a, None))).collect();
    for (n, f) in stmt_chains(&salts, &simples, 1, &stmt_leaves) {
        acc.add("C1s", n, in_func(f));
    }
    // every statement alternative alone (incl. those without statement holes)
    for a in &salts {
        for (kn, kw) in &fk {
            acc.add("C0", format!("{}@{}", a.name, kn), kw(build_s(a, None)));
        }
    }

    // ---- Σ_D: declaration-level alternatives alone and in ordered pairs
    let fps = file_parts();
    let cps = contract_parts();
    for (n, f) in &fps {
        acc.add("D1", format!("file:{}", n), file(vec![f.clone()]));
        acc.add("D1", format!("file+pragma:{}", n), file(vec![pragma(PRAGMA), f.clone()]));
    }
    for (n, f) in &cps {
        acc.add("D1", format!("contract:{}", n), in_contract(f.clone()));
        for kw in [&["interface"][..], &["library"][..], &["abstract", "contract"][..]] {
            acc.add("D1", format!("{}:{}", kw.join(" "), n), file(vec![pragma(PRAGMA), contract_kw(kw, "C", vec![], vec![f.clone()])]));
        }
    }
    for (n1, f1) in &fps {
        for (n2, f2) in &fps {
            acc.add("D2", format!("file:{}+{}", n1, n2), file(vec![f1.clone(), f2.clone()]));
        }
    }
    let cps_small: Vec<&(String, Frag)> = cps
        .iter()
        .filter(|(n, _)| !(n.starts_with("fn.") && (n.contains(".view.") || n.contains(".pure.") || n.contains(".constant.") || n.ends_with("._f"))))
        .filter(|(n, _)| !(n.starts_with("var.") && n.ends_with("._v")))
        .collect();
    for (n1, f1) in &cps_small {
        for (n2, f2) in &cps_small {
            acc.add("D2", format!("contract:{}+{}", n1, n2), file(vec![pragma(PRAGMA), contract("C", vec![f1.clone(), f2.clone()])]));
        }
    }

    // ---- Σ_T(2): full trees of depth 2 over a reduced alphabet (sibling interactions)
    let leaves = leaf_kinds();
    for &(kind, op, prec, lc, rc) in BINOPS {
        for (i, l) in leaves.iter().enumerate() {
            for (j, r) in leaves.iter().enumerate() {
                acc.add("T2", format!("{}({},{})", kind, i, j), in_func(expr_stmt(bin(kind, op, prec, lc, rc, l.clone(), r.clone()))));
            }
        }
    }
    let arith: Vec<&(&str, &str, u8, u8, u8)> =
        BINOPS.iter().filter(|b| ["Power", "Multiply", "Divide", "Modulo", "Add", "Subtract", "ShiftLeft", "Equal", "And", "Assign", "AssignDivide", "AssignAdd"].contains(&b.0)).collect();
    for o in &arith {
        for a in &arith {
            for b in &arith {
                let l = bin(a.0, a.1, a.2, a.3, a.4, var("x"), num("2"));
                let r = bin(b.0, b.1, b.2, b.3, b.4, var("y"), var("x"));
                acc.add("T2", format!("{}({},{})", o.0, a.0, b.0), in_func(expr_stmt(bin(o.0, o.1, o.2, o.3, o.4, l, r))));
            }
        }
    }
    for a in leaves.iter().take(6) {
        for b in leaves.iter().take(6) {
            for c in leaves.iter().take(6) {
                let t = nodep("Ternary", 14, vec![C(fit(13, a)), T("?"), C(fit(14, b)), T(":"), C(fit(14, c))]);
                acc.add("T2", "ternary".to_string(), in_func(expr_stmt(t)));
            }
        }
    }

    // ---- deep nesting: every node must be found however deep it sits (the traversal has no depth bound)
    for depth in [65usize, 70, 130] {
        // left-nested additions, nested parentheses, nested negations, ternary chains, nested blocks
        let mut e = var("d0");
        for k in 1..depth {
            e = bin("Add", "+", 5, 5, 4, e, var(["d1", "d2", "d3"][k % 3]));
        }
        acc.add("deep", format!("add:{}", depth), in_func(node("Return", vec![T("return"), C(e), T(";")])));
        let mut e = bin("Multiply", "*", 4, 4, 3, var("d0"), num("2"));
        for _ in 0..depth {
            e = paren(e);
        }
        acc.add("deep", format!("paren:{}", depth), in_func(expr_stmt(e)));
        let mut e = bin("Equal", "==", 11, 11, 10, var("d0"), var("d1"));
        e = paren(e);
        for _ in 0..depth {
            e = nodep("Not", 2, vec![T("!"), C(e)]);
        }
        acc.add("deep", format!("not:{}", depth), in_func(expr_stmt(e)));
        let mut e = var("last");
        for k in 0..depth {
            e = nodep("Ternary", 14, vec![C(fit(13, &bin("Less", "<", 10, 10, 9, var("c"), num(&k.to_string())))), T("?"), C(num("1")), T(":"), C(e)]);
        }
        acc.add("deep", format!("ternary:{}", depth), in_func(expr_stmt(e)));
        let mut st = expr_stmt(nodep("PostIncrement", 0, vec![C(var("k")), T("++")]));
        for k in 0..depth {
            st = if k % 2 == 0 { block(vec![st]) } else { node("If", vec![T("if"), T("("), C(var("c")), T(")"), C(st)]) };
        }
        acc.add("deep", format!("blocks:{}", depth), in_func(st));
        let mut e = var("arr");
        for k in 0..depth {
            e = subscript(e, num(&(k % 3).to_string()));
        }
        acc.add("deep", format!("subscript:{}", depth), in_func(expr_stmt(bin("Assign", "=", 14, 13, 14, e, num("1")))));
        let mut e = var("x");
        for _ in 0..depth {
            e = call(var("f"), vec![e]);
        }
        acc.add("deep", format!("calls:{}", depth), in_func(expr_stmt(e)));
    }

    if tier == Tier::Thorough {
        // ---- Σ_A(2): chains of two alternatives in every non-expression-owned hole
        let syn = |a: &EAlt| !a.atom || a.name.len() % 3 == 0;
        let e2s = expr_chains(&ealts, 2, &syn);
        for c in &ctxs {
            if let H::E(class) = c.hole {
                for (n, f) in &e2s {
                    acc.add("A2", format!("{}<-{}", c.name, n), (c.wrap)(fit(class, f)));
                }
            }
        }
        for (n, f) in stmt_expr_holes(&salts, &simples, &e2s) {
            acc.add("A2s", n, in_func(f));
        }
        // ---- Σ_B(3): generated lazily from Σ_B(2) to bound memory
        for a in ealts.iter().filter(|a| !a.atom) {
            for h in 0..a.holes.len() {
                for (n, f) in &e2 {
                    acc.add("B3", format!("{}[{}]<-{}", a.name, h, n), in_func(expr_stmt(build_e(a, Some((h, f))))));
                }
            }
        }
        // ---- Σ_C(3) in a plain function, Σ_C(2) in every function kind
        for (n, f) in stmt_chains(&salts, &simples, 3, &marker) {
            acc.add("C3", n, in_func(f));
        }
        for (n, f) in stmt_chains(&salts, &simples, 2, &marker) {
            for (kn, kw) in &fk {
                acc.add("C2k", format!("{}@{}", n, kn), kw(f.clone()));
            }
        }
    }

}

/// A small corpus for layout exploration etc.: Σ_A(1) in the statement context, Σ_D singles,
/// statement alternatives.
pub fn build_small() -> Corpus {
    let ealts = expr_alts();
    let salts = stmt_alts();
    let mut acc = Acc::new();
    for a in &ealts {
        acc.add("S.e", a.name.clone(), in_func(expr_stmt(build_e(a, None))));
    }
    for a in &salts {
        acc.add("S.s", a.name.clone(), in_func(build_s(a, None)));
    }
    for (n, f) in file_parts() {
        acc.add("S.d", n, file(vec![pragma(PRAGMA), f]));
    }
    for (n, f) in contract_parts() {
        acc.add("S.d", n, in_contract(f));
    }
    // realistic items (the C19 pool) under both sides of the version thresholds, SafeMath attached,
    // and multi-part string literals: the version-gated detectors must be live in this corpus too
    let extra = [
        ("multipart", "contract MP { function f ( bool c ) public { require ( c , \"insufficient~\" \"balance\" ) ; require ( c , \"this~part~is~long~enough~\" \"to~pass~thirty-two~bytes~in~total\" ) ; require ( c , unicode\"é\" 'x' ) ; } }"),
        ("safemath", "contract SM { using SafeMath for uint256 ; function f ( uint256 a , uint256 b ) public returns ( uint256 ) { return a . add ( b ) . mul ( a . sub ( b ) ) . div ( 2 ) ; } }"),
        ("signatures-in-strings", "contract En { event Log ( string s ) ; function f ( address t , bool c ) public { t . call ( abi . encodeWithSignature ( \"transfer(address,uint256)\" , t , 1 ) ) ; t . call ( abi . encodeWithSelector ( bytes4 ( keccak256 ( \"approve(address,uint256)\" ) ) , t , 1 ) ) ; require ( c , \"transfer(address,uint256)~failed\" ) ; emit Log ( \"approve(address,uint256)\" ) ; emit Log ( \"selfdestruct(a);~x++;~a.balance\" ) ; } }"),
        ("longstring", "contract LS { function f ( bool c ) public { require ( c , \"this~revert~string~is~longer~than~thirty-two~bytes\" ) ; require ( c , \"short\" ) ; } }"),
    ];
    let mut items: Vec<(String, Vec<String>)> = Vec::new();
    for (n, t) in crate::c19::pool() {
        // templates that carry comment tokens belong to C19 only (a comment is not a token of the layout space)
        if t.split(' ').any(|x| x.starts_with("//") || x.starts_with("/*")) {
            continue;
        }
        items.push((n.to_string(), t.split(' ').filter(|x| !x.is_empty()).map(|x| x.replace('#', "0").replace('~', " ")).collect()));
    }
    for (n, t) in extra {
        items.push((n.to_string(), t.split(' ').filter(|x| !x.is_empty()).map(|x| x.replace('~', " ")).collect()));
    }
    // ... and under directives with TWO constraints whose versions lie on different sides of a threshold (the separator
    // between the constraints is part of the layout space)
    for (n, t) in extra {
        for (vn, ver) in [("range-080-090", ">=0.8.0 <0.9.0"), ("range-070-084", ">=0.7.0 <0.8.4"), ("range-084-070", "<0.8.4 >=0.7.0")] {
            let mut all: Vec<String> = vec!["pragma".into(), "solidity".into()];
            all.extend(ver.split(' ').map(|x| x.to_string()));
            all.push(";".into());
            all.extend("using SafeMath for uint256 ;".split(' ').map(|x| x.to_string()));
            all.extend(t.split(' ').filter(|x| !x.is_empty()).map(|x| x.replace('~', " ")));
            acc.add("S.pool", format!("{}@{}", n, vn), Frag { toks: all, nodes: Vec::new(), prec: 0, open: false });
        }
    }
    for (n, toks) in items {
        for ver in ["0.7.6", "0.8.3", "0.8.19"] {
            let mut all: Vec<String> = vec!["pragma".into(), "solidity".into(), ver.into(), ";".into()];
            if ver == "0.7.6" {
                all.extend("using SafeMath for uint256 ;".split(' ').map(|x| x.to_string()));
            }
            all.extend(toks.iter().cloned());
            acc.add("S.pool", format!("{}@{}", n, ver), Frag { toks: all, nodes: Vec::new(), prec: 0, open: false });
        }
    }
    Corpus { progs: acc.progs, generated: acc.generated, families: acc.families }
}
