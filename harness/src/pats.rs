//! One small source file per pattern, each with at least one finding of its own pattern
//! (verified at start-up through the library by the checks that use it).

pub fn sources() -> Vec<(&'static str, &'static str)> {
    vec![
        ("address_balance", "pragma solidity 0.8.19;\ncontract P1 {\n  function f() internal view returns (uint256) {\n    return address(this).balance;\n  }\n}\n"),
        ("address_zero", "pragma solidity 0.8.19;\ncontract P2 {\n  function f(address a) internal pure returns (bool) {\n    return a == address(0);\n  }\n}\n"),
        ("assign_update_array_value", "pragma solidity 0.8.19;\ncontract P3 {\n  function f(uint256[] memory arr, uint256 y) internal pure {\n    arr[0] = arr[0] + y;\n  }\n}\n"),
        ("bool_equals_bool", "pragma solidity 0.8.19;\ncontract P4 {\n  function f(bool b) internal pure returns (bool) {\n    return b == true;\n  }\n}\n"),
        ("cache_array_length", "pragma solidity 0.8.19;\ncontract P5 {\n  function f(uint256[] memory arr) internal pure {\n    for (uint256 i; i < arr.length; ) { }\n  }\n}\n"),
        ("constant_variables", "pragma solidity 0.8.19;\ncontract P6 {\n  uint256 never;\n}\n"),
        ("immutable_variables", "pragma solidity 0.8.19;\ncontract P7 {\n  uint256 once;\n  constructor(uint256 v) {\n    once = v;\n  }\n}\n"),
        ("increment_decrement", "pragma solidity 0.8.19;\ncontract P8 {\n  function f(uint256 i) internal pure {\n    i++;\n  }\n}\n"),
        ("memory_to_calldata", "pragma solidity 0.8.19;\ncontract P9 {\n  function f(bytes memory data) external payable {\n  }\n}\n"),
        ("multiple_require", "pragma solidity 0.8.19;\ncontract P10 {\n  function f(bool a, bool b) internal pure {\n    require(a && b);\n  }\n}\n"),
        ("optimal_comparison", "pragma solidity 0.8.19;\ncontract P11 {\n  function f(uint256 a, uint256 b) internal pure returns (bool) {\n    return a >= b;\n  }\n}\n"),
        ("pack_storage_variables", "pragma solidity 0.8.19;\ncontract P12 {\n  uint128 a;\n  uint256 b;\n  uint128 c;\n  function w() internal { a = 1; b = 2; c = 3; a = 4; }\n}\n"),
        ("pack_struct_variables", "pragma solidity 0.8.19;\nstruct P13 {\n  uint128 a;\n  uint256 b;\n  uint128 c;\n}\n"),
        ("payable_function", "pragma solidity 0.8.19;\ncontract P14 {\n  function f() external {\n  }\n}\n"),
        ("private_constant", "pragma solidity 0.8.19;\ncontract P15 {\n  uint256 constant K = 1;\n}\n"),
        ("safe_math_pre_080", "pragma solidity 0.7.6;\ncontract P16 {\n  using SafeMath for uint256;\n  function f(uint256 a, uint256 b) internal pure returns (uint256) {\n    return a.add(b);\n  }\n}\n"),
        ("safe_math_post_080", "pragma abicoder v2;\npragma solidity 0.8.19;\ncontract P17 {\n  using SafeMath for uint256;\n  function f(uint256 a, uint256 b) internal pure returns (uint256) {\n    return a.sub(b);\n  }\n}\n"),
        ("shift_math", "pragma solidity 0.8.19;\ncontract P18 {\n  function f(uint256 a) internal pure returns (uint256) {\n    return a * 8;\n  }\n}\n"),
        ("short_revert_string", "// SPDX-License-Identifier: MIT\npragma abicoder v1;\npragma solidity 0.8.0;\ncontract P19 {\n  function f(bool a) internal pure {\n    require(a, \"this revert string is longer than thirty-two bytes\");\n  }\n}\n"),
        ("solidity_keccak256", "pragma solidity 0.8.19;\ncontract P20 {\n  function f(bytes memory d) internal pure returns (bytes32) {\n    return keccak256(d);\n  }\n}\n"),
        ("solidity_math", "pragma solidity 0.8.19;\ncontract P21 {\n  function f(uint256 a, uint256 b) internal pure returns (uint256) {\n    return a - b;\n  }\n}\n"),
        ("sstore", "pragma solidity 0.8.19;\ncontract P22 {\n  uint256 s;\n  function f(uint256 v) internal {\n    s = v;\n  }\n}\n"),
        ("string_errors", "pragma experimental ABIEncoderV2;\npragma solidity 0.8.19;\ncontract P23 {\n  function f(bool a) internal pure {\n    require(a, \"no\");\n  }\n}\n"),
        ("unsafe_erc20_operation", "pragma solidity 0.8.19;\ncontract P24 {\n  function f(address t, address to, uint256 v) internal {\n    IERC20(t).transfer(to, v);\n  }\n}\n"),
        ("unprotected_selfdestruct", "pragma solidity 0.8.19;\ncontract P25 {\n  function kill(address payable to) external payable {\n    selfdestruct(to);\n  }\n}\n"),
        ("divide_before_multiply", "pragma solidity 0.8.19;\ncontract P26 {\n  function f(uint256 a, uint256 b, uint256 c) internal pure returns (uint256) {\n    return a / b * c;\n  }\n}\n"),
        ("floating_pragma", "pragma solidity ^0.8.0;\ncontract P27 {\n}\n"),
        ("constructor_order", "pragma solidity 0.8.19;\ncontract P28 {\n  function f() internal {\n  }\n  constructor() {\n  }\n}\n"),
        ("private_vars_leading_underscore", "pragma solidity 0.8.19;\ncontract P29 {\n  uint256 private hidden;\n  function w() internal { hidden = 1; hidden = 2; }\n}\n"),
        ("private_func_leading_underscore", "pragma solidity 0.8.19;\ncontract P30 {\n  function helper() private {\n  }\n}\n"),
    ]
}

pub fn category(name: &str) -> &'static str {
    if crate::dets::VULN_NAMES.contains(&name) {
        "vulnerabilities"
    } else if crate::dets::QA_NAMES.contains(&name) {
        "qa"
    } else {
        "optimizations"
    }
}
