//! C01 — a pattern is found wherever it is nested (DESIGN.md section 7, C01).
//!
//! For every program of Σ and every node of its parse tree taken as search root, the real
//! `walk_node_for_targets` / `extract_target(s)_from_node` are compared with the reference
//! pre-order traversal of the R-tree.

use crate::corpus::{self, Tier};
use crate::ev::{Run, Violation};
use crate::rtree::{Class, PtRef, RTree};
use crate::synth;
use crate::util;
use serde_json::json;
use solstat::analyzer::ast::{extract_target_from_node, extract_targets_from_node, walk_node_for_targets, Node, Target};
use std::collections::{BTreeMap, HashSet};

/// kind name -> Target, transcribed independently of ast.rs
pub fn target_table() -> Vec<(&'static str, Target)> {
    vec![
        ("Args", Target::Args),
        ("Return", Target::Return),
        ("Revert", Target::Revert),
        ("RevertNamedArgs", Target::RevertNamedArgs),
        ("Emit", Target::Emit),
        ("Expression", Target::Expression),
        ("VariableDefinition", Target::VariableDefinition),
        ("Block", Target::Block),
        ("If", Target::If),
        ("While", Target::While),
        ("For", Target::For),
        ("DoWhile", Target::DoWhile),
        ("Try", Target::Try),
        ("Add", Target::Add),
        ("And", Target::And),
        ("ArrayLiteral", Target::ArrayLiteral),
        ("ArraySlice", Target::ArraySlice),
        ("ArraySubscript", Target::ArraySubscript),
        ("Assign", Target::Assign),
        ("AssignAdd", Target::AssignAdd),
        ("AssignAnd", Target::AssignAnd),
        ("AssignDivide", Target::AssignDivide),
        ("AssignModulo", Target::AssignModulo),
        ("AssignMultiply", Target::AssignMultiply),
        ("AssignOr", Target::AssignOr),
        ("AssignShiftLeft", Target::AssignShiftLeft),
        ("AssignShiftRight", Target::AssignShiftRight),
        ("AssignSubtract", Target::AssignSubtract),
        ("AssignXor", Target::AssignXor),
        ("BitwiseAnd", Target::BitwiseAnd),
        ("BitwiseOr", Target::BitwiseOr),
        ("BitwiseXor", Target::BitwiseXor),
        ("Complement", Target::Complement),
        ("Delete", Target::Delete),
        ("Divide", Target::Divide),
        ("Equal", Target::Equal),
        ("FunctionCall", Target::FunctionCall),
        ("FunctionCallBlock", Target::FunctionCallBlock),
        ("Less", Target::Less),
        ("LessEqual", Target::LessEqual),
        ("List", Target::List),
        ("MemberAccess", Target::MemberAccess),
        ("Modulo", Target::Modulo),
        ("More", Target::More),
        ("MoreEqual", Target::MoreEqual),
        ("Multiply", Target::Multiply),
        ("NamedFunctionCall", Target::NamedFunctionCall),
        ("New", Target::New),
        ("Not", Target::Not),
        ("NotEqual", Target::NotEqual),
        ("Or", Target::Or),
        ("Parenthesis", Target::Parenthesis),
        ("PostDecrement", Target::PostDecrement),
        ("PostIncrement", Target::PostIncrement),
        ("PreIncrement", Target::PreIncrement),
        ("PreDecrement", Target::PreDecrement),
        ("ShiftLeft", Target::ShiftLeft),
        ("ShiftRight", Target::ShiftRight),
        ("Subtract", Target::Subtract),
        ("Ternary", Target::Ternary),
        ("Type", Target::Type),
        ("Function", Target::Function),
        ("UnaryMinus", Target::UnaryMinus),
        ("UnaryPlus", Target::UnaryPlus),
        ("Unit", Target::Unit),
        ("Power", Target::Power),
        ("BoolLiteral", Target::BoolLiteral),
        ("NumberLiteral", Target::NumberLiteral),
        ("RationalNumberLiteral", Target::RationalNumberLiteral),
        ("HexNumberLiteral", Target::HexNumberLiteral),
        ("HexLiteral", Target::HexLiteral),
        ("StringLiteral", Target::StringLiteral),
        ("AddressLiteral", Target::AddressLiteral),
        ("Variable", Target::Variable),
        ("This", Target::This),
        ("SourceUnit", Target::SourceUnit),
        ("ContractDefinition", Target::ContractDefinition),
        ("EnumDefinition", Target::EnumDefinition),
        ("EventDefinition", Target::EventDefinition),
        ("ErrorDefinition", Target::ErrorDefinition),
        ("FunctionDefinition", Target::FunctionDefinition),
        ("ImportDirective", Target::ImportDirective),
        ("PragmaDirective", Target::PragmaDirective),
        ("StraySemicolon", Target::StraySemicolon),
        ("StructDefinition", Target::StructDefinition),
        ("TypeDefinition", Target::TypeDefinition),
        ("Using", Target::Using),
        // statements without a target of their own
        ("Assembly", Target::None),
        ("Continue", Target::None),
        ("Break", Target::None),
    ]
}

/// the target sets the detectors actually pass (transcribed from /repo/src/analyzer/*/*.rs)
pub fn detector_sets() -> Vec<Vec<&'static str>> {
    vec![
        vec!["MemberAccess"],
        vec!["Equal", "NotEqual"],
        vec!["Assign"],
        vec!["For"],
        vec!["Block"],
        vec!["PreIncrement", "PreDecrement", "PostIncrement", "PostDecrement"],
        vec!["PreIncrement", "PreDecrement"],
        vec!["FunctionCall"],
        vec!["MoreEqual", "LessEqual"],
        vec!["Multiply", "Divide"],
        vec!["Add", "Subtract", "Multiply", "Divide"],
        vec!["ContractDefinition"],
        vec!["FunctionDefinition"],
        vec!["StructDefinition"],
        vec!["Using"],
        vec!["PragmaDirective"],
        vec!["Multiply", "AssignDivide"],
        vec![
            "Assign",
            "PreIncrement",
            "PostIncrement",
            "PreDecrement",
            "PostDecrement",
            "AssignAdd",
            "AssignAnd",
            "AssignDivide",
            "AssignModulo",
            "AssignMultiply",
            "AssignOr",
            "AssignShiftLeft",
            "AssignShiftRight",
            "AssignSubtract",
            "AssignXor",
        ],
    ]
}

/// minimal number of distinct child kinds per slot, from the grammar classes of the holes:
/// Expression (precedence 14) holes admit all 61 expression kinds, Precedence13 holes 49,
/// Precedence2 holes 30, Precedence0 / type holes 22; `emit` / `try` admit call forms only and a
/// name-value attribute literals only; statement-typed slots admit every statement kind.
pub const EXPECTED_KINDS_PER_SLOT: &[(&str, usize)] = &[
    ("Base.arg", 61),
    ("VarDef.init", 61),
    ("Param.ty", 61),
    ("NamedArg.expr", 61),
    ("If.cond", 61),
    ("While.cond", 61),
    ("DoWhile.cond", 61),
    ("For.cond", 61),
    ("ExprStmt.expr", 61),
    ("LocalDef.init", 61),
    ("Return.expr", 61),
    ("Revert.arg", 61),
    ("Paren.inner", 61),
    ("Binary.left", 49),
    ("Binary.right", 61),
    ("Ternary.then", 61),
    ("Ternary.else", 61),
    ("Subscript.index", 61),
    ("Slice.lo", 61),
    ("Slice.hi", 61),
    ("Call.arg", 61),
    ("ArrayLit.elem", 61),
    ("Ternary.cond", 49),
    ("Unary.operand", 30),
    ("VarDef.ty", 22),
    ("VarDecl.ty", 22),
    ("EventParam.ty", 22),
    ("ErrorParam.ty", 22),
    ("TypeDef.ty", 22),
    ("Using.ty", 22),
    ("Mapping.key", 22),
    ("Mapping.value", 22),
    ("Member.object", 22),
    ("Subscript.base", 22),
    ("Slice.base", 22),
    ("Unit.operand", 22),
    ("Call.callee", 22),
    ("CallBlock.callee", 22),
    ("NamedCall.callee", 22),
    ("FnAttr.value", 7),
    ("Emit.expr", 2),
    ("Try.expr", 3),
    ("Block.stmt", 15),
    ("If.then", 15),
    ("If.else", 15),
    ("While.body", 15),
    ("For.body", 15),
    ("DoWhile.body", 15),
    ("For.init", 2),
    ("For.next", 2),
    ("CallBlock.block", 2),
    ("SourceUnit.part", 12),
    ("Contract.part", 9),
];

pub fn to_node(p: &PtRef) -> Option<Node> {
    match p {
        PtRef::SourceUnit(s) => Some(Node::SourceUnit((*s).clone())),
        PtRef::Part(s) => Some(Node::SourceUnitPart((*s).clone())),
        PtRef::CPart(s) => Some(Node::ContractPart((*s).clone())),
        PtRef::Stmt(s) => Some(Node::Statement((*s).clone())),
        PtRef::Expr(s) => Some(Node::Expression((*s).clone())),
        _ => None,
    }
}

struct Outcome {
    violations: Vec<Violation>,
    roots: u64,
    calls: u64,
    nodes: u64,
    pairs: Vec<(&'static str, &'static str)>,
    conform: Result<usize, String>,
    walk_sig: u64,
}

fn describe(t: &RTree, i: usize) -> String {
    let n = &t.nodes[i];
    let parent = n.parent.map(|p| t.nodes[p].kind).unwrap_or("-");
    // nearest non-aux ancestor
    let mut q = n.parent;
    let mut owner = "-";
    while let Some(a) = q {
        if t.nodes[a].class != Class::Aux {
            owner = t.nodes[a].kind;
            break;
        }
        q = t.nodes[a].parent;
    }
    format!("{} in slot {} of {} (owner {})", n.kind, n.slot, parent, owner)
}

fn check_program(p: &synth::Prog, tt: &BTreeMap<&'static str, Target>, all_targets: &HashSet<Target>, sets: &[Vec<&'static str>], tier: Tier, pairs_mode: bool) -> Outcome {
    let (text, offs) = synth::render_l1(&p.toks);
    let mut out = Outcome { violations: Vec::new(), roots: 0, calls: 0, nodes: 0, pairs: Vec::new(), conform: Ok(0), walk_sig: 0 };
    let su = match solang_parser::parse(&text, 0) {
        Ok((su, _)) => su,
        Err(e) => {
            out.conform = Err(format!("generated program rejected by the parser: {:?} :: {}", e.iter().map(|d| d.message.clone()).collect::<Vec<_>>(), p.toks.join(" ")));
            return out;
        }
    };
    let tree = RTree::convert(&su);
    // (programs given as bare token lists — src/scale.rs — carry no believed node list; the tree of the parser is their tree)
    out.conform = if p.nodes.is_empty() && p.tag.starts_with("scale:") { Ok(0) } else { synth::conform(p, &tree, &offs).map_err(|e| format!("{} :: {} :: {}", e, p.tag, p.toks.join(" "))) };
    out.nodes = tree.nodes.len() as u64;
    for n in &tree.nodes {
        out.pairs.push((n.slot, n.kind));
    }
    // field order == source order
    let real: Vec<usize> = (0..tree.nodes.len()).filter(|&i| tree.is_real(i)).collect();
    for w in real.windows(2) {
        if tree.nodes[w[1]].start < tree.nodes[w[0]].start {
            out.conform = Err(format!("field order is not source order at {} :: {}", describe(&tree, w[1]), p.toks.join(" ")));
        }
    }
    let src_sp = synth::render_sp(&p.toks);
    let mut report = |site: String, expected: String, observed: String| {
        out.violations.push(Violation {
            site,
            input: src_sp.clone(),
            expected,
            observed,
            size: p.toks.len(),
            unit_test: format!(
                "#[test]\nfn replay() {{\n    use solstat::analyzer::ast::*;\n    let src = {:?};\n    let su = solang_parser::parse(src, 0).unwrap().0;\n    // compare extract_targets_from_node(<targets>, su.into()) with the nodes visible in the source\n}}\n",
                text
            ),
            extra: json!({"tag": p.tag, "l1": text}),
        });
    };

    for &r in &real {
        let root = match to_node(&tree.nodes[r].pt) {
            Some(n) => n,
            None => continue,
        };
        out.roots += 1;
        let sub = tree.subtree(r);
        // nodes of the three statement kinds without a target of their own are in no result
        let exp_idx: Vec<usize> = sub.clone().filter(|&i| tree.is_real(i) && !matches!(tree.nodes[i].kind, "Assembly" | "Continue" | "Break")).collect();
        if let Some(&i) = exp_idx.iter().find(|&&i| !tt.contains_key(tree.nodes[i].kind)) {
            out.conform = Err(format!("node kind {} has no entry in the target table", tree.nodes[i].kind));
        }
        let expected: Vec<Node> = exp_idx.iter().map(|&i| to_node(&tree.nodes[i].pt).unwrap()).collect();
        // (1) full target set from every root
        let got = match util::guarded(|| walk_node_for_targets(all_targets, root.clone())) {
            Ok(g) => g,
            Err(m) => {
                report(format!("walk:panic:{}", m.chars().take(40).collect::<String>()), "returns".into(), format!("panic: {}", m));
                continue;
            }
        };
        out.calls += 1;
        out.walk_sig = out.walk_sig.wrapping_mul(31).wrapping_add(got.len() as u64);
        if got != expected {
            // first divergence
            let mut i = 0;
            while i < got.len() && i < expected.len() && got[i] == expected[i] {
                i += 1;
            }
            let (site, exp_s, obs_s);
            if i < expected.len() {
                let missing_count = expected.iter().filter(|e| **e == expected[i]).count();
                let got_count = got.iter().filter(|e| **e == expected[i]).count();
                if got_count < missing_count {
                    let d = describe(&tree, exp_idx[i]);
                    // site: slot + owner kind of the first missing node
                    let n = &tree.nodes[exp_idx[i]];
                    let pk = n.parent.map(|q| tree.nodes[q].kind).unwrap_or("-");
                    let mut q = n.parent;
                    let mut owner = "-";
                    while let Some(a) = q {
                        if tree.nodes[a].class != Class::Aux {
                            owner = tree.nodes[a].kind;
                            break;
                        }
                        q = tree.nodes[a].parent;
                    }
                    site = format!("walk:missing:{}:{}:{}", n.slot, pk, owner);
                    exp_s = format!("node #{} of the reference pre-order ({}) is found", i, d);
                    obs_s = format!("not found when searching from root {} with all targets ({} nodes returned, {} expected)", tree.nodes[r].kind, got.len(), expected.len());
                } else {
                    site = format!("walk:order:{}", tree.nodes[exp_idx[i]].slot);
                    exp_s = format!("node #{} is {}", i, describe(&tree, exp_idx[i]));
                    obs_s = format!("another node is returned at that position ({} returned, {} expected)", got.len(), expected.len());
                }
            } else {
                site = format!("walk:extra:{}", tree.nodes[r].kind);
                exp_s = format!("{} nodes", expected.len());
                obs_s = format!("{} nodes: surplus or duplicated nodes returned", got.len());
            }
            report(site, exp_s, obs_s);
            continue;
        }
        // (2) singletons / detector sets / Vec entry point, from the file root and from every
        //     declaration- and statement-level root (where detectors start their searches)
        let class = tree.nodes[r].class;
        let do_sets = match tier {
            Tier::Quick => class == Class::SourceUnit || class == Class::Part || class == Class::CPart,
            Tier::Thorough => class != Class::Expr || tree.nodes[r].slot == "For.cond",
        };
        if !do_sets {
            continue;
        }
        let kinds: Vec<&'static str> = exp_idx.iter().map(|&i| tree.nodes[i].kind).collect();
        let filt = |names: &[&'static str]| -> Vec<Node> {
            let ts: Vec<Target> = names.iter().filter_map(|n| tt.get(n).copied()).collect();
            expected.iter().zip(kinds.iter()).filter(|(_, k)| tt.get(*k).map(|t| ts.contains(t)).unwrap_or(false)).map(|(n, _)| n.clone()).collect()
        };
        // singletons: all targets that occur in this subtree plus a rotating absent one
        let mut present: Vec<&'static str> = kinds.clone();
        present.sort();
        present.dedup();
        let mut singles = present.clone();
        for (k, _) in tt.iter().skip((out.roots as usize) % 7).step_by(7) {
            if !singles.contains(k) {
                singles.push(k);
            }
        }
        for k in singles {
            let t = match tt.get(k) {
                Some(t) => *t,
                None => continue,
            };
            let want: Vec<Node> = expected.iter().zip(kinds.iter()).filter(|(_, kk)| tt.get(*kk).map(|x| *x == t).unwrap_or(false)).map(|(n, _)| n.clone()).collect();
            let got = util::guarded(|| extract_target_from_node(t, root.clone()));
            out.calls += 1;
            match got {
                Ok(g) if g == want => {}
                Ok(g) => report(format!("extract_target:{}", k), format!("{} nodes of kind {} in source order", want.len(), k), format!("{} nodes returned", g.len())),
                Err(m) => report(format!("extract_target:panic:{}", k), "returns".into(), m),
            }
        }
        for s in sets {
            let want = filt(s);
            let ts: Vec<Target> = s.iter().filter_map(|n| tt.get(n).copied()).collect();
            // Vec entry point, with a repeated element
            let mut tv = ts.clone();
            if let Some(f) = ts.first() {
                tv.push(*f);
            }
            let got = util::guarded(|| extract_targets_from_node(tv.clone(), root.clone()));
            out.calls += 1;
            match got {
                Ok(g) if g == want => {}
                Ok(g) => report(format!("extract_targets:{}", s.join("+")), format!("{} nodes", want.len()), format!("{} nodes returned", g.len())),
                Err(m) => report(format!("extract_targets:panic:{}", s.join("+")), "returns".into(), m),
            }
        }
        // mixed sets: a kind together with the kinds that can share its exact location (an expression
        // statement and its expression, a parenthesis and its operand, a definition and its type)
        for wrapper in ["Expression", "Parenthesis", "VariableDefinition", "Block", "FunctionDefinition"] {
            if !present.contains(&wrapper) {
                continue;
            }
            for k in present.iter().filter(|k| **k != wrapper) {
                // bound the work per root: the kinds rotate with the root index
                if present.len() > 6 && (k.len() + out.roots as usize) % 3 != 0 {
                    continue;
                }
                let want = filt(&[wrapper, k]);
                let tv = vec![tt[wrapper], tt[*k]];
                let got = util::guarded(|| extract_targets_from_node(tv.clone(), root.clone()));
                out.calls += 1;
                match got {
                    Ok(g) if g == want => {}
                    Ok(g) => report(format!("extract_targets:mixed:{}+{}", wrapper, k), format!("{} nodes", want.len()), format!("{} nodes returned", g.len())),
                    Err(m) => report(format!("extract_targets:panic:{}+{}", wrapper, k), "returns".into(), m),
                }
            }
        }
        if pairs_mode && class == Class::SourceUnit {
            let names: Vec<&'static str> = tt.keys().copied().collect();
            for a in 0..names.len() {
                for b in (a + 1)..names.len() {
                    if !(present.contains(&names[a]) || present.contains(&names[b])) {
                        continue;
                    }
                    let want = filt(&[names[a], names[b]]);
                    let mut hs = HashSet::new();
                    hs.insert(tt[names[a]]);
                    hs.insert(tt[names[b]]);
                    let got = util::guarded(|| walk_node_for_targets(&hs, root.clone()));
                    out.calls += 1;
                    match got {
                        Ok(g) if g == want => {}
                        Ok(g) => report(format!("walk:pair:{}+{}", names[a], names[b]), format!("{} nodes", want.len()), format!("{} nodes", g.len())),
                        Err(m) => report("walk:pair:panic".into(), "returns".into(), m),
                    }
                    let tv = vec![tt[names[b]], tt[names[a]]];
                    let got = util::guarded(|| extract_targets_from_node(tv.clone(), root.clone()));
                    out.calls += 1;
                    match got {
                        Ok(g) if g == want => {}
                        Ok(g) => report(format!("extract_targets:pair:{}+{}", names[a], names[b]), format!("{} nodes", want.len()), format!("{} nodes", g.len())),
                        Err(m) => report("extract_targets:pair:panic".into(), "returns".into(), m),
                    }
                }
            }
        }
    }
    out
}

pub fn run(tier: Tier) -> i32 {
    util::quiet();
    let mut run = Run::new("C01", if tier == Tier::Quick { "quick" } else { "thorough" });
    let tt_vec = target_table();
    let mut tt: BTreeMap<&'static str, Target> = BTreeMap::new();
    // `Target::None` is the placeholder of statements that have no kind of their own (assembly, continue, break): it is
    // not a kind one searches for, so it is in no target set and those nodes are expected in no result
    for (k, t) in &tt_vec {
        if *t != Target::None {
            tt.insert(k, *t);
        }
    }
    let mut all_targets: HashSet<Target> = HashSet::new();
    for (_, t) in &tt_vec {
        if *t != Target::None {
            all_targets.insert(*t);
        }
    }
    let sets = detector_sets();
    let mut roots = 0u64;
    let mut calls = 0u64;
    let mut nodes = 0u64;
    let mut validated = 0u64;
    let mut pairs: HashSet<(&'static str, &'static str)> = HashSet::new();
    let mut slots: HashSet<&'static str> = HashSet::new();
    let mut sig_set: HashSet<u64> = HashSet::new();
    let mut samples: Vec<serde_json::Value> = Vec::new();
    let mut replayed = false;
    let mut n = 0usize;
    let sum = corpus::stream(tier, &mut |chunk: Vec<synth::Prog>| {
        n += chunk.len();
        let res = util::par_map(chunk.len(), |i| {
            let pairs_mode = tier == Tier::Thorough && (chunk[i].tag.starts_with("B2") || chunk[i].tag.starts_with("D"));
            check_program(&chunk[i], &tt, &all_targets, &sets, tier, pairs_mode)
        });
        if samples.len() < 5 {
            let p = &chunk[chunk.len() / 2];
            samples.push(json!({"tag": p.tag, "source": synth::render_sp(&p.toks)}));
        }
        // determinism self-test on the first chunk: replay a prefix and compare observations
        if !replayed {
            replayed = true;
            let m = chunk.len().min(200);
            let again = util::par_map(m, |i| check_program(&chunk[i], &tt, &all_targets, &sets, tier, false).walk_sig);
            for i in 0..m {
                if again[i] != res[i].walk_sig {
                    run.machinery(format!("replay divergence on program {}", chunk[i].tag));
                }
            }
        }
        for o in &res {
            roots += o.roots;
            calls += o.calls;
            nodes += o.nodes;
            sig_set.insert(o.walk_sig);
            match &o.conform {
                Ok(_) => validated += 1,
                Err(e) => run.machinery(format!("generator/parser disagreement: {}", e)),
            }
            for p in &o.pairs {
                pairs.insert(*p);
                slots.insert(p.0);
            }
        }
        for o in res {
            run.merge_violations(o.violations);
        }
    });
    // wide constructs (parts / statements / arguments / parameters / elements on both sides of 64 and 256) and constructs whose
    // shape the generator fixes to one spelling (literal spellings, try statements, non-ASCII identifiers)
    {
        let mut extra: Vec<synth::Prog> = Vec::new();
        for (label, toks) in crate::scale::width_toks(tier == Tier::Thorough).into_iter().chain(crate::scale::shape_toks()) {
            extra.push(synth::Prog { toks, nodes: Vec::new(), tag: label });
        }
        n += extra.len();
        let res = util::par_map(extra.len(), |i| check_program(&extra[i], &tt, &all_targets, &sets, tier, false));
        for o in res {
            roots += o.roots;
            calls += o.calls;
            nodes += o.nodes;
            sig_set.insert(o.walk_sig);
            match &o.conform {
                Ok(_) => validated += 1,
                Err(e) => run.machinery(format!("scale program: {}", e)),
            }
            run.merge_violations(o.violations);
        }
    }
    let c = sum;
    for s in crate::rtree::ALL_SLOTS {
        if !slots.contains(s) {
            run.machinery(format!("coverage hole: parse-tree slot {} never visited", s));
        }
    }
    // slot x kind coverage (DESIGN.md 4.5): every slot must have been visited with as many distinct
    // node kinds as its grammar class admits (weaker-binding kinds enter through a parenthesis)
    let mut per_slot: BTreeMap<&'static str, HashSet<&'static str>> = BTreeMap::new();
    for (s, k) in &pairs {
        per_slot.entry(*s).or_default().insert(*k);
    }
    for (slot, min) in EXPECTED_KINDS_PER_SLOT {
        let got = per_slot.get(slot).map(|x| x.len()).unwrap_or(0);
        if got < *min {
            run.machinery(format!("coverage hole: slot {} was visited with {} node kinds, its grammar class admits at least {}", slot, got, min));
        }
    }
    // every node kind must have occurred
    let kinds_seen: HashSet<&'static str> = pairs.iter().map(|p| p.1).collect();
    for (k, _) in &tt_vec {
        if !kinds_seen.contains(k) && *k != "Function" && *k != "SourceUnit" {
            run.machinery(format!("coverage hole: node kind {} never generated", k));
        }
    }
    let distinct_sigs = sig_set;
    run.set("states", n as u64);
    run.set("transitions", calls);
    run.set("traces_validated_against_impl", validated);
    run.set("evaluations", calls);
    run.set("distinct_nontrivial", distinct_sigs.len() as u64);
    run.set("rule", "programs = derivation paths of the parser grammar (families A1,A1s,B2,C1,C2,D1,D2,T2; thorough adds A2,B3,C3), de-duplicated by token sequence; every parse-tree node is a search root; non-trivial = distinct sequence of result sizes over the roots of a program");
    run.set("programs_generated", c.generated as u64);
    run.set("search_roots", roots);
    run.set("parse_tree_nodes", nodes);
    run.set("slots_visited", slots.len() as u64);
    run.set("slot_kind_pairs_visited", pairs.len() as u64);
    run.set("families", json!(c.families.iter().map(|(f, k)| json!({"family": f, "programs": k})).collect::<Vec<_>>()));
    run.set("bound_completed", if tier == Tier::Quick { "path length 2 (expression chains), statement chains 2, ordered pairs of declarations" } else { "path length 3 (expression chains B3, A2), statement chains 3, all target pairs on B2 and D" });
    run.set("samples", json!(samples));
    run.assume("solang-parser 0.1.18: loc.start() of every node is the offset of its first token (Parenthesis: of its operand) — validated on every generated program");
    run.assume("inline assembly is not descended into (excluded by the property)");
    run.finish()
}
