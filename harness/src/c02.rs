//! C02 — every reported line is the line on which the flagged construct begins.
//!
//! (a) conversion: all texts of length <= n over {a, é, LF, CR, space}, every offset at which a
//!     token can start, real `get_line_number` against 1 + #LF before the offset; plus the real
//!     token offsets of Σ_small under the layout space Λ.
//! (b) choice of location: Σ x 30 detectors on the one-token-per-line layout: every reported line
//!     is the line of an admissible anchor of a construct the reference detectors know (refdet).

use crate::corpus::{self, Tier};
use crate::ev::{Run, Violation};
use crate::layout;
use crate::refdet;
use crate::util;
use serde_json::json;
use solstat::analyzer::utils::get_line_number;
use std::collections::HashSet;

const ALPHA: &[&str] = &["a", "é", "\n", "\r", " "];

fn texts(n: usize) -> Vec<String> {
    let mut all = vec![String::new()];
    let mut cur = vec![String::new()];
    for _ in 0..n {
        let mut next = Vec::new();
        for t in &cur {
            for a in ALPHA {
                next.push(format!("{}{}", t, a));
            }
        }
        all.extend(next.iter().cloned());
        cur = next;
    }
    all
}

pub fn run(tier: Tier) -> i32 {
    util::quiet();
    let mut run = Run::new("C02", if tier == Tier::Quick { "quick" } else { "thorough" });
    // ---------------------------------------------------------------- (a) conversion
    let n = if tier == Tier::Quick { 6 } else { 8 };
    let ts = texts(n);
    let res = util::par_map(ts.len(), |i| {
        let t = &ts[i];
        let mut vs = Vec::new();
        let mut calls = 0u64;
        let mut outs = HashSet::new();
        for (off, ch) in t.char_indices() {
            if ch != 'a' && ch != 'é' {
                continue;
            }
            let want = layout::line_of(t, off);
            calls += 1;
            let got = util::guarded(|| get_line_number(off, t));
            outs.insert(want);
            if got != Ok(want) {
                let last_line = !t[off..].contains('\n');
                vs.push(Violation {
                    site: format!("get_line_number:{}", if got.is_err() { "panic" } else if last_line { "last-line-unterminated" } else if t[..off].contains('\r') { "after-CR" } else if t[..off].contains('é') { "after-multibyte" } else { "other" }),
                    input: format!("{:?} offset {}", t, off),
                    expected: format!("line {}", want),
                    observed: format!("{:?}", got),
                    size: t.len(),
                    unit_test: format!("#[test]\nfn replay() {{\n    assert_eq!(solstat::analyzer::utils::get_line_number({}, {:?}), {});\n}}\n", off, t, want),
                    extra: json!({}),
                });
            }
        }
        (vs, calls, outs.len())
    });
    let mut calls_a = 0u64;
    let mut max_line = 0usize;
    for (vs, c, o) in res {
        calls_a += c;
        max_line = max_line.max(o);
        run.merge_violations(vs);
    }
    // real token offsets of Σ_small under Λ
    let small = corpus::build_small();
    let all_dets = crate::dets::all();
    let res2 = util::par_map(small.progs.len(), |i| {
        let p = &small.progs[i];
        let mut vs = Vec::new();
        let mut calls = 0u64;
        let mut lays = layout::uniform(p.toks.len());
        if tier == Tier::Thorough {
            lays.extend(layout::single_deviations(p.toks.len()));
        } else {
            lays.extend(layout::single_deviations(p.toks.len()).into_iter().step_by(7));
        }
        for l in &lays {
            let (text, offs) = layout::render(&p.toks, l);
            for &o in &offs {
                calls += 1;
                let want = layout::line_of(&text, o);
                let got = util::guarded(|| get_line_number(o, &text));
                if got != Ok(want) {
                    let last_line = !text[o..].contains('\n');
                    vs.push(Violation {
                        site: format!("get_line_number:{}", if last_line { "last-line-unterminated" } else { "layout" }),
                        input: format!("{:?} offset {}", text, o),
                        expected: format!("line {}", want),
                        observed: format!("{:?}", got),
                        size: 10_000 + text.len(),
                        unit_test: format!("#[test]\nfn replay() {{\n    assert_eq!(solstat::analyzer::utils::get_line_number({}, {:?}), {});\n}}\n", o, text, want),
                        extra: json!({"layout": l.label}),
                    });
                }
            }
        }
        // (c) reported lines follow the construct through equal-length re-layouts analysed back to back
        //     on the same thread (blank vs line feed at one gap): every reported line must be the line
        //     of a token flagged on the one-token-per-line layout
        let (l1, _) = crate::synth::render_l1(&p.toks);
        let n = p.toks.len();
        for d in &all_dets {
            let flagged: Vec<usize> = match crate::dets::run_guarded(d, &l1, 0) {
                Ok(ls) if !ls.is_empty() && ls.iter().all(|&l| l >= 1 && (l as usize) <= n) => ls.iter().map(|&l| (l - 1) as usize).collect(),
                _ => continue,
            };
            let base = layout::Layout { gaps: vec![0; n + 1], tight: false, compact: false, ending: 0, label: "default".into() };
            let (t0, o0) = layout::render(&p.toks, &base);
            for g in (1..n).step_by(((n / 6).max(1)) as usize) {
                let mut gaps = vec![0; n + 1];
                gaps[g] = 1;
                let (t1, o1) = layout::render(&p.toks, &layout::Layout { gaps, tight: false, compact: false, ending: 0, label: format!("lf at gap {}", g) });
                for (text, offs) in [(&t0, &o0), (&t1, &o1), (&t0, &o0)] {
                    calls += 1;
                    let want: std::collections::BTreeSet<i32> = flagged.iter().map(|&t| layout::line_of(text, offs[t])).collect();
                    let got = crate::dets::run_guarded(d, text, 0);
                    if got.as_ref().ok() != Some(&want) {
                        vs.push(Violation {
                            site: format!("{}:line-does-not-follow-relayout", d.name),
                            input: format!("{:?} (analysed right after an equal-length layout of the same tokens)", text),
                            expected: format!("lines {:?}", want),
                            observed: format!("{:?}", got),
                            size: 20_000 + text.len(),
                            unit_test: crate::dets::unit_test_for(d, text, "lines must be those of the flagged constructs in THIS text"),
                            extra: json!({}),
                        });
                    }
                }
            }
        }
        (vs, calls)
    });
    let mut calls_l = 0u64;
    for (vs, c) in res2 {
        calls_l += c;
        run.merge_violations(vs);
    }
    // ---------------------------------------------------------------- (d) through analyze_dir
    let pool: Vec<crate::synth::Prog> = small.progs.into_iter().filter(|p| p.tag.starts_with("S.pool") || p.tag.contains("atom.")).collect();
    let (dvs, dstates, dcalls) = crate::fsx::dir_layout_check(&pool, "C02");
    run.merge_violations(dvs);
    run.set("directory_level_layout_states", dstates);
    calls_l += dcalls;
    // ---------------------------------------------------------------- (b) choice of location
    let (sw, _sum, _samples) = refdet::sweep_stream(tier, &crate::dets::all(), refdet::Mode::LocationOnly, &|_| true);
    for e in &sw.machinery {
        run.machinery(e.clone());
    }
    run.merge_violations(sw.violations);
    // ... and the item pool under 0.7.6 / 0.8.3 / 0.8.19 with SafeMath attached (chained SafeMath calls, multi-part
    // revert strings): the version-gated detectors report locations too
    {
        let items: Vec<(String, String, Vec<usize>)> = pool
            .iter()
            .filter(|p| p.tag.starts_with("S.pool"))
            .map(|p| {
                let (t, o) = crate::synth::render_l1(&p.toks);
                (p.tag.clone(), t, o)
            })
            .collect();
        let sw2 = refdet::sweep_texts(&items, &crate::dets::all(), refdet::Mode::LocationOnly);
        for e in &sw2.machinery {
            run.machinery(e.clone());
        }
        run.add("location_checks_pool_programs", sw2.programs);
        run.merge_violations(sw2.violations);
    }

    // ... and inputs that are extreme in one dimension (src/scale.rs): hundreds / a thousand findings of one pattern at column 0,
    // line numbers and byte offsets beyond 16 bits, a line of more than 65536 bytes, line-end look-alikes
    {
        let mut items = crate::scale::line_items(tier == Tier::Thorough);
        items.extend(crate::scale::width_items(tier == Tier::Thorough));
        items.extend(crate::scale::string_items(false));
        let sw3 = refdet::sweep_texts(&items, &crate::dets::all(), refdet::Mode::LocationOnly);
        for e in &sw3.machinery {
            run.machinery(e.clone());
        }
        run.add("location_checks_scale_programs", sw3.programs);
        run.add("location_checks_scale_reported_lines", sw3.reported_lines);
        run.merge_violations(sw3.violations);
    }

    run.set("states", (ts.len() + sw.programs as usize) as u64);
    run.set("transitions", calls_a + calls_l + sw.calls);
    run.set("traces_validated_against_impl", sw.validated);
    run.set("evaluations", calls_a + calls_l + sw.calls);
    run.set("distinct_nontrivial", sw.distinct_outcomes);
    run.set("texts_enumerated", ts.len() as u64);
    run.set("conversion_calls_on_texts", calls_a);
    run.set("conversion_calls_on_layouts", calls_l);
    run.set("location_checks_programs", sw.programs);
    run.set("location_checks_reported_lines", sw.reported_lines);
    run.set("rule", "(a) every text of length <= n over {a, é, LF, CR, space} x every offset at which a token can start (n = 6 quick, 8 thorough), plus the token offsets of Σ_small under the uniform / tight / single-deviation layouts; (b) Σ x 30 detectors on the one-token-per-line layout: each reported line must be an admissible anchor line of a construct known to the reference detectors of DESIGN.md section 8; non-trivial = distinct (detector, reported token set) outcomes");
    run.set("samples", json!([{"text": "a\nééa", "offset": 6, "line": 2}, {"text": "\r\n a", "offset": 3, "line": 2}, {"text": "a", "offset": 0, "line": 1}]));
    run.set("bound_completed", format!("texts of length <= {}; Σ {}", n, if tier == Tier::Quick { "quick" } else { "thorough" }));
    run.finish()
}
