//! Program space Σ (DESIGN.md section 4): a generator transcribed from solang-parser 0.1.18's
//! grammar.  A program is a vector of tokens plus the list of parse-tree nodes (kind, first token)
//! the generator *believes* it printed, in pre-order.  `conform()` checks that belief against the
//! real parser on every program ("traces validated against the implementation").

use crate::rtree::{Class, RTree};

#[derive(Clone, Debug)]
pub struct Frag {
    pub toks: Vec<String>,
    /// (first token index, kind) of every non-auxiliary node, in pre-order
    pub nodes: Vec<(usize, &'static str)>,
    /// binding level of an expression fragment (0 = tightest .. 14 = assignment)
    pub prec: u8,
    /// statement ends in an `if` without `else` (dangling-else hazard)
    pub open: bool,
}

pub enum P {
    T(&'static str),
    S(String),
    C(Frag),
}
use P::{C, S, T};

fn cat(kind: Option<&'static str>, parts: Vec<P>) -> Frag {
    let mut toks = Vec::new();
    let mut nodes = Vec::new();
    if let Some(k) = kind {
        nodes.push((0usize, k));
    }
    for p in parts {
        match p {
            T(t) => toks.push(t.to_string()),
            S(t) => toks.push(t),
            C(f) => {
                let off = toks.len();
                for (i, k) in f.nodes {
                    nodes.push((i + off, k));
                }
                toks.extend(f.toks);
            }
        }
    }
    Frag { toks, nodes, prec: 0, open: false }
}

pub fn node(kind: &'static str, parts: Vec<P>) -> Frag {
    cat(Some(kind), parts)
}
pub fn seq(parts: Vec<P>) -> Frag {
    cat(None, parts)
}
pub fn nodep(kind: &'static str, prec: u8, parts: Vec<P>) -> Frag {
    let mut f = cat(Some(kind), parts);
    f.prec = prec;
    f
}
/// `( inner )`: solang gives the Parenthesis node the location of its operand.
pub fn paren(inner: Frag) -> Frag {
    let mut toks = vec!["(".to_string()];
    // the Parenthesis node takes the location of its operand (which, for a nested parenthesis,
    // is again the location of the innermost operand)
    let first = inner.nodes.first().map(|n| n.0).unwrap_or(0);
    let mut nodes = vec![(first + 1, "Parenthesis")];
    for (i, k) in inner.nodes {
        nodes.push((i + 1, k));
    }
    toks.extend(inner.toks);
    toks.push(")".to_string());
    Frag { toks, nodes, prec: 0, open: false }
}
/// place an expression fragment in a hole of binding class `class`
pub fn fit(class: u8, f: &Frag) -> Frag {
    if f.prec > class {
        paren(f.clone())
    } else {
        f.clone()
    }
}
pub fn var(name: &'static str) -> Frag {
    nodep("Variable", 0, vec![T(name)])
}
pub fn svar(name: String) -> Frag {
    nodep("Variable", 0, vec![S(name)])
}
pub fn num(n: &str) -> Frag {
    nodep("NumberLiteral", 0, vec![S(n.to_string())])
}
pub fn strlit(s: &str) -> Frag {
    nodep("StringLiteral", 0, vec![S(format!("\"{}\"", s))])
}
pub fn ty(t: &'static str) -> Frag {
    nodep("Type", 0, vec![T(t)])
}
pub fn call(callee: Frag, args: Vec<Frag>) -> Frag {
    let mut parts = vec![C(fit(0, &callee)), T("(")];
    for (i, a) in args.into_iter().enumerate() {
        if i > 0 {
            parts.push(T(","));
        }
        parts.push(C(fit(14, &a)));
    }
    parts.push(T(")"));
    nodep("FunctionCall", 0, parts)
}
pub fn member(obj: Frag, m: &'static str) -> Frag {
    nodep("MemberAccess", 0, vec![C(fit(0, &obj)), T("."), T(m)])
}
pub fn bin(kind: &'static str, op: &'static str, prec: u8, lc: u8, rc: u8, l: Frag, r: Frag) -> Frag {
    nodep(kind, prec, vec![C(fit(lc, &l)), T(op), C(fit(rc, &r))])
}
pub fn subscript(base: Frag, idx: Frag) -> Frag {
    nodep("ArraySubscript", 0, vec![C(fit(0, &base)), T("["), C(fit(14, &idx)), T("]")])
}

pub const BINOPS: &[(&str, &str, u8, u8, u8)] = &[
    ("Power", "**", 3, 2, 3),
    ("Multiply", "*", 4, 4, 3),
    ("Divide", "/", 4, 4, 3),
    ("Modulo", "%", 4, 4, 3),
    ("Add", "+", 5, 5, 4),
    ("Subtract", "-", 5, 5, 4),
    ("ShiftLeft", "<<", 6, 6, 5),
    ("ShiftRight", ">>", 6, 6, 5),
    ("BitwiseAnd", "&", 7, 7, 6),
    ("BitwiseXor", "^", 8, 8, 7),
    ("BitwiseOr", "|", 9, 9, 8),
    ("Less", "<", 10, 10, 9),
    ("More", ">", 10, 10, 9),
    ("LessEqual", "<=", 10, 10, 9),
    ("MoreEqual", ">=", 10, 10, 9),
    ("Equal", "==", 11, 11, 10),
    ("NotEqual", "!=", 11, 11, 10),
    ("And", "&&", 12, 12, 11),
    ("Or", "||", 13, 13, 12),
    ("Assign", "=", 14, 13, 14),
    ("AssignOr", "|=", 14, 13, 14),
    ("AssignAnd", "&=", 14, 13, 14),
    ("AssignXor", "^=", 14, 13, 14),
    ("AssignShiftLeft", "<<=", 14, 13, 14),
    ("AssignShiftRight", ">>=", 14, 13, 14),
    ("AssignAdd", "+=", 14, 13, 14),
    ("AssignSubtract", "-=", 14, 13, 14),
    ("AssignMultiply", "*=", 14, 13, 14),
    ("AssignDivide", "/=", 14, 13, 14),
    ("AssignModulo", "%=", 14, 13, 14),
];

pub const PREFIX: &[(&str, &str)] = &[
    ("Not", "!"),
    ("Complement", "~"),
    ("Delete", "delete"),
    ("New", "new"),
    ("PreIncrement", "++"),
    ("PreDecrement", "--"),
    ("UnaryPlus", "+"),
    ("UnaryMinus", "-"),
];

/// An expression alternative: `holes[i]` is the binding class of the i-th expression hole.
pub struct EAlt {
    pub name: String,
    pub holes: Vec<u8>,
    pub build: Box<dyn Fn(&[Frag]) -> Frag + Sync + Send>,
    /// true for idiom atoms (section 8 forms) rather than purely syntactic alternatives
    pub atom: bool,
}

fn ealt<F: Fn(&[Frag]) -> Frag + Sync + Send + 'static>(name: &str, holes: &[u8], f: F) -> EAlt {
    EAlt { name: name.to_string(), holes: holes.to_vec(), build: Box::new(f), atom: false }
}
fn atom<F: Fn(&[Frag]) -> Frag + Sync + Send + 'static>(name: &str, f: F) -> EAlt {
    EAlt { name: name.to_string(), holes: vec![], build: Box::new(f), atom: true }
}

fn param(tyf: Frag, storage: Option<&'static str>, name: Option<&'static str>) -> Frag {
    let mut parts = vec![C(fit(14, &tyf))];
    if let Some(s) = storage {
        parts.push(T(s));
    }
    if let Some(n) = name {
        parts.push(T(n));
    }
    seq(parts)
}

pub fn expr_alts() -> Vec<EAlt> {
    let mut v: Vec<EAlt> = Vec::new();
    for &(kind, op, prec, lc, rc) in BINOPS {
        v.push(ealt(kind, &[lc, rc], move |h| nodep(kind, prec, vec![C(h[0].clone()), T(op), C(h[1].clone())])));
    }
    v.push(ealt("Ternary", &[13, 14, 14], |h| {
        nodep("Ternary", 14, vec![C(h[0].clone()), T("?"), C(h[1].clone()), T(":"), C(h[2].clone())])
    }));
    for &(kind, op) in PREFIX {
        v.push(ealt(kind, &[2], move |h| nodep(kind, 2, vec![T(op), C(h[0].clone())])));
    }
    v.push(ealt("PostIncrement", &[0], |h| nodep("PostIncrement", 0, vec![C(h[0].clone()), T("++")])));
    v.push(ealt("PostDecrement", &[0], |h| nodep("PostDecrement", 0, vec![C(h[0].clone()), T("--")])));
    v.push(ealt("ArraySubscript", &[0, 14], |h| {
        nodep("ArraySubscript", 0, vec![C(h[0].clone()), T("["), C(h[1].clone()), T("]")])
    }));
    v.push(ealt("ArraySubscript.noindex", &[0], |h| nodep("ArraySubscript", 0, vec![C(h[0].clone()), T("["), T("]")])));
    v.push(ealt("ArraySlice.both", &[0, 14, 14], |h| {
        nodep("ArraySlice", 0, vec![C(h[0].clone()), T("["), C(h[1].clone()), T(":"), C(h[2].clone()), T("]")])
    }));
    v.push(ealt("ArraySlice.lo", &[0, 14], |h| {
        nodep("ArraySlice", 0, vec![C(h[0].clone()), T("["), C(h[1].clone()), T(":"), T("]")])
    }));
    v.push(ealt("ArraySlice.hi", &[0, 14], |h| {
        nodep("ArraySlice", 0, vec![C(h[0].clone()), T("["), T(":"), C(h[1].clone()), T("]")])
    }));
    v.push(ealt("ArraySlice.none", &[0], |h| nodep("ArraySlice", 0, vec![C(h[0].clone()), T("["), T(":"), T("]")])));
    v.push(ealt("MemberAccess", &[0], |h| nodep("MemberAccess", 0, vec![C(h[0].clone()), T("."), T("m")])));
    v.push(ealt("MemberAccess.address", &[0], |h| {
        nodep("MemberAccess", 0, vec![C(h[0].clone()), T("."), T("address")])
    }));
    v.push(ealt("FunctionCall.0", &[0], |h| nodep("FunctionCall", 0, vec![C(h[0].clone()), T("("), T(")")])));
    v.push(ealt("FunctionCall.1", &[0, 14], |h| {
        nodep("FunctionCall", 0, vec![C(h[0].clone()), T("("), C(h[1].clone()), T(")")])
    }));
    v.push(ealt("FunctionCall.2", &[0, 14, 14], |h| {
        nodep("FunctionCall", 0, vec![C(h[0].clone()), T("("), C(h[1].clone()), T(","), C(h[2].clone()), T(")")])
    }));
    v.push(ealt("FunctionCallBlock.args1", &[0, 14], |h| {
        nodep(
            "FunctionCallBlock",
            0,
            vec![C(h[0].clone()), C(node("Args", vec![T("{"), T("value"), T(":"), C(h[1].clone()), T("}")]))],
        )
    }));
    v.push(ealt("FunctionCallBlock.args2", &[0, 14, 14], |h| {
        nodep(
            "FunctionCallBlock",
            0,
            vec![
                C(h[0].clone()),
                C(node(
                    "Args",
                    vec![T("{"), T("value"), T(":"), C(h[1].clone()), T(","), T("gas"), T(":"), C(h[2].clone()), T("}")],
                )),
            ],
        )
    }));
    v.push(ealt("FunctionCallBlock.then.call", &[0, 14, 14], |h| {
        let cb = nodep(
            "FunctionCallBlock",
            0,
            vec![C(h[0].clone()), C(node("Args", vec![T("{"), T("value"), T(":"), C(h[1].clone()), T("}")]))],
        );
        nodep("FunctionCall", 0, vec![C(cb), T("("), C(h[2].clone()), T(")")])
    }));
    v.push(ealt("NamedFunctionCall.0", &[0], |h| {
        nodep("NamedFunctionCall", 0, vec![C(h[0].clone()), T("("), T("{"), T("}"), T(")")])
    }));
    v.push(ealt("NamedFunctionCall.1", &[0, 14], |h| {
        nodep("NamedFunctionCall", 0, vec![C(h[0].clone()), T("("), T("{"), T("k"), T(":"), C(h[1].clone()), T("}"), T(")")])
    }));
    v.push(ealt("NamedFunctionCall.2", &[0, 14, 14], |h| {
        nodep(
            "NamedFunctionCall",
            0,
            vec![
                C(h[0].clone()),
                T("("),
                T("{"),
                T("k"),
                T(":"),
                C(h[1].clone()),
                T(","),
                T("j"),
                T(":"),
                C(h[2].clone()),
                T("}"),
                T(")"),
            ],
        )
    }));
    v.push(ealt("Parenthesis", &[14], |h| paren(h[0].clone())));
    v.push(ealt("List.2", &[14, 14], |h| nodep("List", 0, vec![T("("), C(h[0].clone()), T(","), C(h[1].clone()), T(")")])));
    v.push(ealt("List.skipfirst", &[14], |h| nodep("List", 0, vec![T("("), T(","), C(h[0].clone()), T(")")])));
    v.push(ealt("List.skiplast", &[14], |h| nodep("List", 0, vec![T("("), C(h[0].clone()), T(","), T(")")])));
    v.push(ealt("List.typed", &[14, 14], |h| {
        nodep(
            "List",
            0,
            vec![T("("), C(h[0].clone()), T("x"), T(","), C(h[1].clone()), T("memory"), T("y"), T(")")],
        )
    }));
    v.push(ealt("List.named1", &[14], |h| nodep("List", 0, vec![T("("), C(h[0].clone()), T("x"), T(")")])));
    v.push(ealt("List.empty", &[], |_| nodep("List", 0, vec![T("("), T(")")])));
    v.push(ealt("ArrayLiteral.1", &[14], |h| nodep("ArrayLiteral", 0, vec![T("["), C(h[0].clone()), T("]")])));
    v.push(ealt("ArrayLiteral.2", &[14, 14], |h| {
        nodep("ArrayLiteral", 0, vec![T("["), C(h[0].clone()), T(","), C(h[1].clone()), T("]")])
    }));
    for u in ["seconds", "minutes", "hours", "days", "weeks", "wei", "gwei", "ether"] {
        v.push(ealt(&format!("Unit.{}", u), &[0], move |h| nodep("Unit", 0, vec![C(h[0].clone()), T(u)])));
    }
    // leaves
    v.push(ealt("Variable", &[], |_| var("z")));
    v.push(ealt("Variable.error", &[], |_| nodep("Variable", 2, vec![T("error")])));
    v.push(ealt("Variable.revert", &[], |_| nodep("Variable", 2, vec![T("revert")])));
    v.push(ealt("Variable.switch", &[], |_| var("switch")));
    v.push(ealt("Variable.unicode", &[], |_| var("é")));
    v.push(ealt("This", &[], |_| nodep("This", 0, vec![T("this")])));
    v.push(ealt("BoolLiteral.true", &[], |_| nodep("BoolLiteral", 0, vec![T("true")])));
    v.push(ealt("BoolLiteral.false", &[], |_| nodep("BoolLiteral", 0, vec![T("false")])));
    for n in ["7", "1e2", "1_000", "0"] {
        v.push(ealt(&format!("NumberLiteral.{}", n), &[], move |_| num(n)));
    }
    for n in ["1.5", "1.5e1", ".5"] {
        v.push(ealt(&format!("RationalNumberLiteral.{}", n), &[], move |_| nodep("RationalNumberLiteral", 0, vec![T(n)])));
    }
    v.push(ealt("HexNumberLiteral", &[], |_| nodep("HexNumberLiteral", 0, vec![T("0x1f")])));
    v.push(ealt("StringLiteral", &[], |_| strlit("s")));
    v.push(ealt("StringLiteral.unicode", &[], |_| nodep("StringLiteral", 0, vec![T("unicode\"s\"")])));
    v.push(ealt("StringLiteral.two", &[], |_| nodep("StringLiteral", 0, vec![T("\"s\""), T("\"t\"")])));
    v.push(ealt("StringLiteral.single", &[], |_| nodep("StringLiteral", 0, vec![T("'s'")])));
    v.push(ealt("HexLiteral", &[], |_| nodep("HexLiteral", 0, vec![T("hex\"00\"")])));
    v.push(ealt("HexLiteral.two", &[], |_| nodep("HexLiteral", 0, vec![T("hex\"00\""), T("hex'11'")])));
    v.push(ealt("AddressLiteral", &[], |_| {
        nodep("AddressLiteral", 0, vec![T("address\"0x0000000000000000000000000000000000000000\"")])
    }));
    for t in ["bool", "address", "payable", "string", "bytes", "uint256", "uint8", "uint", "int256", "int", "bytes32", "bytes1", "byte"] {
        v.push(ealt(&format!("Type.{}", t), &[], move |_| ty(t)));
    }
    v.push(ealt("Type.addresspayable", &[], |_| nodep("Type", 0, vec![T("address"), T("payable")])));
    v.push(ealt("Type.mapping", &[0, 0], |h| {
        nodep("Type", 0, vec![T("mapping"), T("("), C(h[0].clone()), T("=>"), C(h[1].clone()), T(")")])
    }));
    v.push(ealt("Type.function.0", &[], |_| nodep("Type", 1, vec![T("function"), T("("), T(")")])));
    v.push(ealt("Type.function.full", &[14, 14], |h| {
        nodep(
            "Type",
            1,
            vec![
                T("function"),
                T("("),
                C(h[0].clone()),
                T("p"),
                T(")"),
                T("external"),
                T("view"),
                T("returns"),
                T("("),
                C(h[1].clone()),
                T(")"),
            ],
        )
    }));
    v.push(ealt("Type.function.retattr", &[14], |h| {
        nodep(
            "Type",
            1,
            vec![T("function"), T("("), T(")"), T("internal"), T("returns"), T("("), C(h[0].clone()), T(")"), T("pure")],
        )
    }));
    v.push(ealt("TypeCall", &[14], |h| {
        nodep("FunctionCall", 0, vec![C(var("type")), T("("), C(h[0].clone()), T(")")])
    }));
    // ---------------------------------------------------------------- idiom atoms (section 8)
    v.push(atom("atom.address_this_balance", |_| member(call(ty("address"), vec![nodep("This", 0, vec![T("this")])]), "balance")));
    v.push(atom("atom.address_id_balance", |_| member(call(ty("address"), vec![var("q")]), "balance")));
    v.push(atom("atom.x_balance", |_| member(var("q"), "balance")));
    v.push(atom("atom.address_x_code", |_| member(call(ty("address"), vec![var("q")]), "code")));
    v.push(atom("atom.payable_x_balance", |_| member(call(ty("payable"), vec![var("q")]), "balance")));
    v.push(atom("atom.eq_address0", |_| bin("Equal", "==", 11, 11, 10, var("q"), call(ty("address"), vec![num("0")]))));
    v.push(atom("atom.address0_ne", |_| bin("NotEqual", "!=", 11, 11, 10, call(ty("address"), vec![num("0")]), var("q"))));
    v.push(atom("atom.eq_address1", |_| bin("Equal", "==", 11, 11, 10, var("q"), call(ty("address"), vec![num("1")]))));
    v.push(atom("atom.eq_address_empty", |_| bin("Equal", "==", 11, 11, 10, var("q"), call(ty("address"), vec![]))));
    // zero-like operands that are not a call of address(...): No (8.2), except the bare 40-digit zero literal (gray)
    for (nm, lit, hex) in [("zero", "0", false), ("hex0", "0x0", true), ("hex00", "0x00", true), ("hex64", "0x0000000000000000000000000000000000000000000000000000000000000000", true), ("hex40", "0x0000000000000000000000000000000000000000", true)] {
        let mk = move || if hex { nodep("HexNumberLiteral", 0, vec![S(lit.to_string())]) } else { num(lit) };
        v.push(atom(&format!("atom.eq_{}", nm), move |_| bin("Equal", "==", 11, 11, 10, var("q"), mk())));
        v.push(atom(&format!("atom.{}_ne", nm), move |_| bin("NotEqual", "!=", 11, 11, 10, mk(), var("q"))));
    }
    v.push(atom("atom.eq_address_hex0", |_| bin("Equal", "==", 11, 11, 10, var("q"), call(ty("address"), vec![nodep("HexNumberLiteral", 0, vec![T("0x0")])]))));
    // other ways of adding one (8.6: "No")
    v.push(atom("atom.add_assign_one", |_| bin("AssignAdd", "+=", 14, 13, 14, var("q"), num("1"))));
    v.push(atom("atom.sub_assign_one", |_| bin("AssignSubtract", "-=", 14, 13, 14, var("q"), num("1"))));
    v.push(atom("atom.assign_plus_one", |_| bin("Assign", "=", 14, 13, 14, var("q"), bin("Add", "+", 5, 5, 4, var("q"), num("1")))));
    v.push(atom("atom.eq_plain", |_| bin("Equal", "==", 11, 11, 10, var("q"), var("r"))));
    v.push(atom("atom.eq_true", |_| bin("Equal", "==", 11, 11, 10, var("q"), nodep("BoolLiteral", 0, vec![T("true")]))));
    v.push(atom("atom.false_ne", |_| bin("NotEqual", "!=", 11, 11, 10, nodep("BoolLiteral", 0, vec![T("false")]), var("q"))));
    v.push(atom("atom.arr_update", |_| {
        bin(
            "Assign",
            "=",
            14,
            13,
            14,
            subscript(var("arr"), num("0")),
            bin("Add", "+", 5, 5, 4, subscript(var("arr"), num("0")), var("q")),
        )
    }));
    v.push(atom("atom.arr_update_mul", |_| {
        bin(
            "Assign",
            "=",
            14,
            13,
            14,
            subscript(var("arr"), num("3")),
            bin("Multiply", "*", 4, 4, 3, subscript(var("arr"), num("3")), var("q")),
        )
    }));
    // the array update under every operator the definition lists (and two it does not list)
    for kind in ["Subtract", "Divide", "Modulo", "ShiftLeft", "ShiftRight", "BitwiseAnd", "BitwiseOr", "BitwiseXor", "Or", "Power"] {
        let b = BINOPS.iter().find(|b| b.0 == kind).copied();
        if let Some((k, op, prec, lc, rc)) = b {
            v.push(atom(&format!("atom.arr_update_{}", k), move |_| {
                bin("Assign", "=", 14, 13, 14, subscript(var("arr"), num("2")), bin(k, op, prec, lc, rc, subscript(var("arr"), num("2")), var("q")))
            }));
        }
    }
    // the same update with an identifier, a member and a nested subscript as index
    v.push(atom("atom.arr_update_ident_index", |_| bin("Assign", "=", 14, 13, 14, subscript(var("arr"), var("k")), bin("Add", "+", 5, 5, 4, subscript(var("arr"), var("k")), var("q")))));
    v.push(atom("atom.arr_update_member_index", |_| bin("Assign", "=", 14, 13, 14, subscript(var("arr"), member(var("msg"), "sender")), bin("Subtract", "-", 5, 5, 4, subscript(var("arr"), member(var("msg"), "sender")), var("q")))));
    v.push(atom("atom.arr_compound", |_| bin("AssignAdd", "+=", 14, 13, 14, subscript(var("arr"), num("0")), var("q"))));
    v.push(atom("atom.arr_other_index", |_| {
        bin(
            "Assign",
            "=",
            14,
            13,
            14,
            subscript(var("arr"), num("1")),
            bin("Add", "+", 5, 5, 4, subscript(var("arr"), num("0")), var("q")),
        )
    }));
    v.push(atom("atom.arr_other_array", |_| {
        bin(
            "Assign",
            "=",
            14,
            13,
            14,
            subscript(var("arr"), num("0")),
            bin("Add", "+", 5, 5, 4, subscript(var("brr"), num("0")), var("q")),
        )
    }));
    v.push(atom("atom.require_and", |_| {
        call(var("require"), vec![bin("And", "&&", 12, 12, 11, var("p"), var("q")), strlit("m")])
    }));
    // `&&` as a direct argument in another position than the first (the definition says "one of whose direct arguments")
    v.push(atom("atom.require_and_second", |_| call(var("require"), vec![var("p"), bin("And", "&&", 12, 12, 11, var("q"), var("r"))])));
    v.push(atom("atom.require_and_last_of_three", |_| {
        call(var("require"), vec![var("p"), strlit("m"), bin("And", "&&", 12, 12, 11, var("q"), var("r"))])
    }));
    v.push(atom("atom.require_plain", |_| call(var("require"), vec![var("p"), strlit("m")])));
    // a revert string written as several adjacent literals is one literal node that begins at its first part
    v.push(atom("atom.require_multipart", |_| call(var("require"), vec![var("p"), nodep("StringLiteral", 0, vec![T("\"s\""), T("\"t\"")])])));
    v.push(atom("atom.require_multipart3", |_| {
        call(var("require"), vec![var("p"), nodep("StringLiteral", 0, vec![T("unicode\"aaaaaaaaaaaaaaaaaaaa\""), T("'bbbbbbbbbbbbbbbbbbbb'"), T("\"c\"")])])
    }));
    v.push(atom("atom.assert_and", |_| call(var("assert"), vec![bin("And", "&&", 12, 12, 11, var("p"), var("q"))])));
    v.push(atom("atom.require_empty", |_| call(var("require"), vec![])));
    for (n, lit) in [
        ("mul8", "8"),
        ("mul3", "3"),
        ("mul1e18", "1e18"),
        ("mul2e1", "2e1"),
        ("mul2p32", "4294967296"),
        ("mul2p64", "18446744073709551616"),
        ("mul1", "1"),
        ("mul0", "0"),
        ("mul1_024", "1_024"),
    ] {
        let lit = lit.to_string();
        v.push(atom(&format!("atom.{}", n), move |_| bin("Multiply", "*", 4, 4, 3, var("q"), num(&lit))));
    }
    v.push(atom("atom.8mul", |_| bin("Multiply", "*", 4, 4, 3, num("8"), var("q"))));
    v.push(atom("atom.div4", |_| bin("Divide", "/", 4, 4, 3, var("q"), num("4"))));
    v.push(atom("atom.div6", |_| bin("Divide", "/", 4, 4, 3, var("q"), num("6"))));
    v.push(atom("atom.keccak", |_| call(var("keccak256"), vec![var("q")])));
    v.push(atom("atom.keccak_empty", |_| call(var("keccak256"), vec![])));
    v.push(atom("atom.sha256", |_| call(var("sha256"), vec![var("q")])));
    v.push(atom("atom.x_keccak", |_| call(member(var("q"), "keccak256"), vec![var("r")])));
    v.push(atom("atom.transfer", |_| call(member(var("t"), "transfer"), vec![var("u"), var("w")])));
    v.push(atom("atom.transferFrom", |_| call(member(var("t"), "transferFrom"), vec![var("u"), var("w"), var("q")])));
    v.push(atom("atom.approve", |_| call(member(var("t"), "approve"), vec![var("u"), var("w")])));
    v.push(atom("atom.safeTransfer", |_| call(member(var("t"), "safeTransfer"), vec![var("u"), var("w")])));
    v.push(atom("atom.transfer_plain", |_| call(var("transfer"), vec![var("u")])));
    v.push(atom("atom.div_then_mul", |_| {
        bin("Multiply", "*", 4, 4, 3, bin("Divide", "/", 4, 4, 3, var("p"), var("q")), var("r"))
    }));
    v.push(atom("atom.mul_then_div", |_| {
        bin("Divide", "/", 4, 4, 3, bin("Multiply", "*", 4, 4, 3, var("p"), var("q")), var("r"))
    }));
    v.push(atom("atom.assigndiv_mul", |_| {
        bin("AssignDivide", "/=", 14, 13, 14, var("p"), bin("Multiply", "*", 4, 4, 3, var("q"), var("r")))
    }));
    v.push(atom("atom.assigndiv_plain", |_| bin("AssignDivide", "/=", 14, 13, 14, var("p"), var("q"))));
    v.push(atom("atom.s0_assign", |_| bin("Assign", "=", 14, 13, 14, var("s0"), num("1"))));
    v.push(atom("atom.s0_preinc", |_| nodep("PreIncrement", 2, vec![T("++"), C(var("s0"))])));
    v.push(atom("atom.s0_postdec", |_| nodep("PostDecrement", 0, vec![C(var("s0")), T("--")])));
    v.push(atom("atom.s0_shl", |_| bin("AssignShiftLeft", "<<=", 14, 13, 14, var("s0"), num("1"))));
    v.push(atom("atom.length", |_| member(var("arr"), "length")));
    v.push(atom("atom.codestring", |_| strlit("x++; selfdestruct(a); a >= b; keccak256(c) * 8")));
    v.push(atom("atom.safe_add", |_| call(member(var("p"), "add"), vec![var("q")])));
    v.push(atom("atom.require_long", |_| {
        call(var("require"), vec![var("p"), strlit("this revert string is longer than thirty-two bytes")])
    }));
    v.push(atom("atom.selfdestruct", |_| call(var("selfdestruct"), vec![var("q")])));
    v.push(atom("atom.selfdestruct_sender", |_| {
        call(var("selfdestruct"), vec![call(ty("payable"), vec![member(var("msg"), "sender")])])
    }));
    v.push(atom("atom.selfdestruct_empty", |_| call(var("selfdestruct"), vec![])));
    v.push(atom("atom.unicode_transfer", |_| call(member(var("émetteur"), "transfer"), vec![var("ü")])));
    v.push(atom("atom.unicode_postinc", |_| nodep("PostIncrement", 0, vec![C(var("zähler")), T("++")])));
    v.push(atom("atom.two_lengths", |_| {
        bin(
            "And",
            "&&",
            12,
            12,
            11,
            bin("Less", "<", 10, 10, 9, var("i"), member(var("arr"), "length")),
            bin("Less", "<", 10, 10, 9, var("i"), member(var("brr"), "length")),
        )
    }));
    v.push(atom("atom.transferFrom_value", |_| member(var("t"), "transferFrom")));
    v.push(atom("atom.transfer_with_options", |_| {
        let cb = nodep(
            "FunctionCallBlock",
            0,
            vec![C(member(var("t"), "transfer")), C(node("Args", vec![T("{"), T("gas"), T(":"), C(var("g")), T("}")]))],
        );
        nodep("FunctionCall", 0, vec![C(cb), T("("), C(var("u")), T(","), C(var("w")), T(")")])
    }));
    v.push(atom("atom.x_add_empty", |_| call(member(var("p"), "add"), vec![])));
    v
}

// -------------------------------------------------------------------------------- statements

#[derive(Clone, Copy, PartialEq, Eq, Debug)]
pub enum H {
    /// expression hole of the given binding class
    E(u8),
    /// statement hole
    St,
    /// statement hole that must not end in a dangling `if`
    StClosed,
    /// simple statement (for-init / for-next): expression or declaration, no `;`
    Simple,
    /// block statement
    Blk,
}

pub struct SAlt {
    pub name: String,
    pub holes: Vec<H>,
    pub build: Box<dyn Fn(&[Frag]) -> Frag + Sync + Send>,
}

fn salt<F: Fn(&[Frag]) -> Frag + Sync + Send + 'static>(name: &str, holes: &[H], f: F) -> SAlt {
    SAlt { name: name.to_string(), holes: holes.to_vec(), build: Box::new(f) }
}

pub fn block(stmts: Vec<Frag>) -> Frag {
    let mut parts = vec![T("{")];
    for s in stmts {
        parts.push(C(s));
    }
    parts.push(T("}"));
    node("Block", parts)
}
pub fn expr_stmt(e: Frag) -> Frag {
    node("Expression", vec![C(fit(14, &e)), T(";")])
}
/// simple statement without the trailing `;`
pub fn simple_expr(e: Frag) -> Frag {
    node("Expression", vec![C(fit(14, &e))])
}
fn closed(f: &Frag) -> Frag {
    if f.open {
        block(vec![f.clone()])
    } else {
        f.clone()
    }
}
fn openf(mut f: Frag, open: bool) -> Frag {
    f.open = open;
    f
}

pub fn stmt_alts() -> Vec<SAlt> {
    use H::*;
    let mut v = Vec::new();
    v.push(salt("Block.0", &[], |_| block(vec![])));
    v.push(salt("Block.1", &[St], |h| block(vec![h[0].clone()])));
    v.push(salt("Block.2", &[St, St], |h| block(vec![h[0].clone(), h[1].clone()])));
    v.push(salt("Unchecked.1", &[St], |h| node("Block", vec![T("unchecked"), T("{"), C(h[0].clone()), T("}")])));
    v.push(salt("Unchecked.0", &[], |_| node("Block", vec![T("unchecked"), T("{"), T("}")])));
    v.push(salt("Assembly", &[], |_| {
        node(
            "Assembly",
            vec![
                T("assembly"),
                T("{"),
                T("let"),
                T("x"),
                T(":="),
                T("add"),
                T("("),
                T("1"),
                T(","),
                T("2"),
                T(")"),
                T("x"),
                T(":="),
                T("mul"),
                T("("),
                T("x"),
                T(","),
                T("8"),
                T(")"),
                T("sstore"),
                T("("),
                T("0"),
                T(","),
                T("keccak256"),
                T("("),
                T("0"),
                T(","),
                T("x"),
                T(")"),
                T(")"),
                T("}"),
            ],
        )
    }));
    v.push(salt("Assembly.dialect", &[], |_| {
        node("Assembly", vec![T("assembly"), T("\"evmasm\""), T("("), T("\"memory-safe\""), T(")"), T("{"), T("}")])
    }));
    v.push(salt("If", &[E(14), St], |h| {
        openf(node("If", vec![T("if"), T("("), C(h[0].clone()), T(")"), C(h[1].clone())]), true)
    }));
    v.push(salt("IfElse", &[E(14), StClosed, St], |h| {
        let o = h[2].open;
        openf(
            node("If", vec![T("if"), T("("), C(h[0].clone()), T(")"), C(closed(&h[1])), T("else"), C(h[2].clone())]),
            o,
        )
    }));
    v.push(salt("While", &[E(14), St], |h| {
        let o = h[1].open;
        openf(node("While", vec![T("while"), T("("), C(h[0].clone()), T(")"), C(h[1].clone())]), o)
    }));
    v.push(salt("DoWhile", &[St, E(14)], |h| {
        node("DoWhile", vec![T("do"), C(h[0].clone()), T("while"), T("("), C(h[1].clone()), T(")"), T(";")])
    }));
    // for: all 2^3 header combinations, with body statement and with `;`
    for mask in 0u8..8 {
        for body in [true, false] {
            let mut holes = Vec::new();
            if mask & 1 != 0 {
                holes.push(Simple);
            }
            if mask & 2 != 0 {
                holes.push(E(14));
            }
            if mask & 4 != 0 {
                holes.push(Simple);
            }
            if body {
                holes.push(St);
            }
            let name = format!("For.{}{}", mask, if body { "b" } else { "s" });
            v.push(salt(&name, &holes, move |h| {
                let mut i = 0;
                let mut parts = vec![T("for"), T("(")];
                if mask & 1 != 0 {
                    parts.push(C(h[i].clone()));
                    i += 1;
                }
                parts.push(T(";"));
                if mask & 2 != 0 {
                    parts.push(C(h[i].clone()));
                    i += 1;
                }
                parts.push(T(";"));
                if mask & 4 != 0 {
                    parts.push(C(h[i].clone()));
                    i += 1;
                }
                parts.push(T(")"));
                let mut open = false;
                if body {
                    open = h[i].open;
                    parts.push(C(h[i].clone()));
                } else {
                    parts.push(T(";"));
                }
                openf(node("For", parts), open)
            }));
        }
    }
    v.push(salt("Continue", &[], |_| node("Continue", vec![T("continue"), T(";")])));
    v.push(salt("Break", &[], |_| node("Break", vec![T("break"), T(";")])));
    v.push(salt("Return.0", &[], |_| node("Return", vec![T("return"), T(";")])));
    v.push(salt("Return.1", &[E(14)], |h| node("Return", vec![T("return"), C(h[0].clone()), T(";")])));
    v.push(salt("Revert.0", &[], |_| node("Revert", vec![T("revert"), T("("), T(")"), T(";")])));
    v.push(salt("Revert.1", &[E(14)], |h| node("Revert", vec![T("revert"), T("("), C(h[0].clone()), T(")"), T(";")])));
    v.push(salt("Revert.named2", &[E(14), E(14)], |h| {
        node(
            "Revert",
            vec![T("revert"), T("Lib"), T("."), T("Err"), T("("), C(h[0].clone()), T(","), C(h[1].clone()), T(")"), T(";")],
        )
    }));
    v.push(salt("RevertNamedArgs.1", &[E(14)], |h| {
        node(
            "RevertNamedArgs",
            vec![T("revert"), T("Err"), T("("), T("{"), T("k"), T(":"), C(h[0].clone()), T("}"), T(")"), T(";")],
        )
    }));
    v.push(salt("RevertNamedArgs.2", &[E(14), E(14)], |h| {
        node(
            "RevertNamedArgs",
            vec![
                T("revert"),
                T("("),
                T("{"),
                T("k"),
                T(":"),
                C(h[0].clone()),
                T(","),
                T("j"),
                T(":"),
                C(h[1].clone()),
                T("}"),
                T(")"),
                T(";"),
            ],
        )
    }));
    v.push(salt("Emit.call", &[E(14)], |h| {
        node("Emit", vec![T("emit"), C(call(var("Ev"), vec![h[0].clone()])), T(";")])
    }));
    v.push(salt("Emit.member2", &[E(14), E(14)], |h| {
        node("Emit", vec![T("emit"), C(call(member(var("L"), "Ev"), vec![h[0].clone(), h[1].clone()])), T(";")])
    }));
    v.push(salt("Emit.named", &[E(14)], |h| {
        node(
            "Emit",
            vec![
                T("emit"),
                C(nodep("NamedFunctionCall", 0, vec![C(var("Ev")), T("("), T("{"), T("k"), T(":"), C(h[0].clone()), T("}"), T(")")])),
                T(";"),
            ],
        )
    }));
    v.push(salt("Try.returns", &[E(14), E(14), St, St], |h| {
        node(
            "Try",
            vec![
                T("try"),
                C(call(member(var("o"), "f"), vec![h[0].clone()])),
                T("returns"),
                T("("),
                C(param(h[1].clone(), None, Some("r"))),
                T(")"),
                C(block(vec![h[2].clone()])),
                T("catch"),
                C(block(vec![h[3].clone()])),
            ],
        )
    }));
    v.push(salt("Try.new.catches", &[E(14), E(14), St, E(14), St], |h| {
        let newcall = nodep("New", 2, vec![T("new"), C(call(var("K"), vec![h[0].clone()]))]);
        node(
            "Try",
            vec![
                T("try"),
                C(newcall),
                T("returns"),
                T("("),
                T(")"),
                C(block(vec![])),
                T("catch"),
                T("Error"),
                T("("),
                C(param(h[1].clone(), Some("memory"), Some("r"))),
                T(")"),
                C(block(vec![h[2].clone()])),
                T("catch"),
                T("("),
                C(param(h[3].clone(), Some("memory"), Some("d"))),
                T(")"),
                C(block(vec![h[4].clone()])),
            ],
        )
    }));
    v.push(salt("Try.noreturns", &[E(14), St, St], |h| {
        // without `returns`, the success block is parsed as the block of a FunctionCallBlock
        let cb = nodep("FunctionCallBlock", 0, vec![C(call(member(var("o"), "f"), vec![h[0].clone()])), C(block(vec![h[1].clone()]))]);
        node("Try", vec![T("try"), C(cb), T("catch"), C(block(vec![h[2].clone()]))])
    }));
    v.push(salt("Expression", &[E(14)], |h| node("Expression", vec![C(h[0].clone()), T(";")])));
    v.push(salt("LocalDef.noinit", &[E(0)], |h| {
        node("VariableDefinition", vec![C(h[0].clone()), T("loc"), T(";")])
    }));
    v.push(salt("LocalDef.init", &[E(0), E(14)], |h| {
        node("VariableDefinition", vec![C(h[0].clone()), T("loc"), T("="), C(h[1].clone()), T(";")])
    }));
    v.push(salt("LocalDef.memory", &[E(0), E(14)], |h| {
        node("VariableDefinition", vec![C(h[0].clone()), T("memory"), T("loc"), T("="), C(h[1].clone()), T(";")])
    }));
    v.push(salt("CallBlock.stmt", &[St], |h| {
        // `g { stmt }` : a call-block whose block is an ordinary block statement
        node(
            "Expression",
            vec![C(nodep("FunctionCallBlock", 0, vec![C(var("g")), C(block(vec![h[0].clone()]))])), T(";")],
        )
    }));
    v
}

/// simple-statement alternatives for `for` headers
pub fn simple_alts() -> Vec<SAlt> {
    use H::*;
    vec![
        salt("Simple.expr", &[E(14)], |h| node("Expression", vec![C(h[0].clone())])),
        salt("Simple.def", &[E(0), E(14)], |h| {
            node("VariableDefinition", vec![C(h[0].clone()), T("i"), T("="), C(h[1].clone())])
        }),
        salt("Simple.defnoinit", &[E(0)], |h| node("VariableDefinition", vec![C(h[0].clone()), T("i")])),
    ]
}

// ------------------------------------------------------------------- declaration-level contexts

pub const PRAGMA: &str = "0.8.19";

pub fn pragma(value: &str) -> Frag {
    node("PragmaDirective", vec![T("pragma"), T("solidity"), S(value.to_string()), T(";")])
}

pub fn file(parts: Vec<Frag>) -> Frag {
    let mut p = Vec::new();
    for f in parts {
        p.push(C(f));
    }
    node("SourceUnit", p)
}

pub fn contract_kw(kw: &[&'static str], name: &'static str, bases: Vec<Frag>, parts: Vec<Frag>) -> Frag {
    let mut p: Vec<P> = kw.iter().map(|k| T(k)).collect();
    p.push(T(name));
    if !bases.is_empty() {
        p.push(T("is"));
        for (i, b) in bases.into_iter().enumerate() {
            if i > 0 {
                p.push(T(","));
            }
            p.push(C(b));
        }
    }
    p.push(T("{"));
    for f in parts {
        p.push(C(f));
    }
    p.push(T("}"));
    node("ContractDefinition", p)
}
pub fn contract(name: &'static str, parts: Vec<Frag>) -> Frag {
    contract_kw(&["contract"], name, vec![], parts)
}

/// `function f ( ) public { body }`
pub fn func(name: &'static str, attrs: &[&'static str], body: Vec<Frag>) -> Frag {
    let mut p = vec![T("function"), T(name), T("("), T(")")];
    for a in attrs {
        p.push(T(a));
    }
    p.push(C(block(body)));
    node("FunctionDefinition", p)
}

/// A context owns one hole; `wrap` turns the filler into a whole file.
pub struct Ctx {
    pub name: String,
    pub hole: H,
    pub wrap: Box<dyn Fn(Frag) -> Frag + Sync + Send>,
}
fn ctx<F: Fn(Frag) -> Frag + Sync + Send + 'static>(name: &str, hole: H, f: F) -> Ctx {
    Ctx { name: name.to_string(), hole, wrap: Box::new(f) }
}

fn in_contract(part: Frag) -> Frag {
    file(vec![pragma(PRAGMA), contract("C", vec![part])])
}
fn in_file(part: Frag) -> Frag {
    file(vec![pragma(PRAGMA), part])
}
pub fn in_func(stmt: Frag) -> Frag {
    in_contract(func("f", &["public"], vec![stmt]))
}

/// function-like definitions with one statement in the body, all kinds (contract level + free)
pub fn func_kinds() -> Vec<(&'static str, Box<dyn Fn(Frag) -> Frag + Sync + Send>)> {
    let mut v: Vec<(&'static str, Box<dyn Fn(Frag) -> Frag + Sync + Send>)> = Vec::new();
    v.push(("function", Box::new(|s| in_contract(func("f", &["public"], vec![s])))));
    v.push((
        "constructor",
        Box::new(|s| in_contract(node("FunctionDefinition", vec![T("constructor"), T("("), T(")"), C(block(vec![s]))]))),
    ));
    v.push((
        "modifier",
        Box::new(|s| in_contract(node("FunctionDefinition", vec![T("modifier"), T("mm"), T("("), T(")"), C(block(vec![s]))]))),
    ));
    v.push((
        "modifier.noparams",
        Box::new(|s| in_contract(node("FunctionDefinition", vec![T("modifier"), T("mm"), C(block(vec![s]))]))),
    ));
    v.push((
        "fallback",
        Box::new(|s| {
            in_contract(node("FunctionDefinition", vec![T("fallback"), T("("), T(")"), T("external"), C(block(vec![s]))]))
        }),
    ));
    v.push((
        "receive",
        Box::new(|s| {
            in_contract(node(
                "FunctionDefinition",
                vec![T("receive"), T("("), T(")"), T("external"), T("payable"), C(block(vec![s]))],
            ))
        }),
    ));
    v.push(("free", Box::new(|s| in_file(func("g", &[], vec![s])))));
    v.push((
        "oldstyle",
        Box::new(|s| in_contract(node("FunctionDefinition", vec![T("function"), T("("), T(")"), T("external"), C(block(vec![s]))]))),
    ));
    v.push((
        "library",
        Box::new(|s| file(vec![pragma(PRAGMA), contract_kw(&["library"], "L", vec![], vec![func("f", &["internal"], vec![s])])])),
    ));
    v
}

/// Every non-expression owner of an expression hole (DESIGN.md appendix A), file-level and
/// contract-level owners being distinct contexts.
pub fn expr_contexts() -> Vec<Ctx> {
    use H::E;
    let mut v = Vec::new();
    // contract header
    v.push(ctx("Contract.base.arg", E(14), |e| {
        file(vec![pragma(PRAGMA), contract_kw(&["contract"], "C", vec![seq(vec![T("B"), T("("), C(e), T(")")])], vec![])])
    }));
    v.push(ctx("Contract.base.arg2", E(14), |e| {
        file(vec![
            pragma(PRAGMA),
            contract_kw(
                &["abstract", "contract"],
                "C",
                vec![seq(vec![T("A")]), seq(vec![T("L"), T("."), T("B"), T("("), C(var("k")), T(","), C(e), T(")")])],
                vec![],
            ),
        ])
    }));
    // variable definitions (file / contract)
    for lvl in ["file", "contract"] {
        let w: fn(Frag) -> Frag = if lvl == "file" { in_file } else { in_contract };
        v.push(ctx(&format!("{}.VarDef.ty", lvl), E(0), move |e| {
            w(node("VariableDefinition", vec![C(guard_ty(e)), T("sv"), T(";")]))
        }));
        v.push(ctx(&format!("{}.VarDef.init", lvl), E(14), move |e| {
            w(node("VariableDefinition", vec![C(ty("uint256")), T("constant"), T("sv"), T("="), C(e), T(";")]))
        }));
        v.push(ctx(&format!("{}.VarDef.init.attrs", lvl), E(14), move |e| {
            w(node(
                "VariableDefinition",
                vec![C(ty("uint256")), T("public"), T("immutable"), T("override"), T("sv"), T("="), C(e), T(";")],
            ))
        }));
        v.push(ctx(&format!("{}.Struct.field.ty", lvl), E(0), move |e| {
            w(node("StructDefinition", vec![T("struct"), T("S"), T("{"), C(ty("uint8")), T("a"), T(";"), C(e), T("b"), T(";"), T("}")]))
        }));
        v.push(ctx(&format!("{}.Event.field.ty", lvl), E(0), move |e| {
            w(node(
                "EventDefinition",
                vec![T("event"), T("Ev"), T("("), C(ty("address")), T("indexed"), T("a"), T(","), C(e), T(")"), T("anonymous"), T(";")],
            ))
        }));
        v.push(ctx(&format!("{}.Error.field.ty", lvl), E(0), move |e| {
            w(node("ErrorDefinition", vec![T("error"), T("Er"), T("("), C(e), T("a"), T(")"), T(";")]))
        }));
        v.push(ctx(&format!("{}.TypeDef.ty", lvl), E(0), move |e| {
            w(node("TypeDefinition", vec![T("type"), T("U"), T("is"), C(e), T(";")]))
        }));
        v.push(ctx(&format!("{}.Using.ty", lvl), E(0), move |e| {
            w(node("Using", vec![T("using"), T("Lib"), T("for"), C(e), T(";")]))
        }));
        v.push(ctx(&format!("{}.Using.functions.ty", lvl), E(0), move |e| {
            w(node("Using", vec![T("using"), T("{"), T("f"), T(","), T("L"), T("."), T("g"), T("}"), T("for"), C(e), T("global"), T(";")]))
        }));
    }
    // function definitions: params, returns, attribute arguments
    let fkinds: Vec<(&'static str, Vec<&'static str>, bool)> = vec![
        // (label, header tokens up to and excluding the parameter list, file-level?)
        ("function", vec!["function", "f"], false),
        ("free", vec!["function", "g"], true),
        ("constructor", vec!["constructor"], false),
        ("modifier", vec!["modifier", "mm"], false),
        ("fallback", vec!["fallback"], false),
        ("receive", vec!["receive"], false),
        ("oldstyle", vec!["function"], false),
    ];
    for (label, head, filelevel) in fkinds {
        let w: fn(Frag) -> Frag = if filelevel { in_file } else { in_contract };
        let h1 = head.clone();
        v.push(ctx(&format!("{}.param.ty", label), E(14), move |e| {
            let mut p: Vec<P> = h1.iter().map(|t| T(t)).collect();
            p.extend(vec![T("("), C(param(e, Some("memory"), Some("p"))), T(")"), T("external"), C(block(vec![]))]);
            w(node("FunctionDefinition", p))
        }));
        let h2 = head.clone();
        v.push(ctx(&format!("{}.param2.ty", label), E(14), move |e| {
            let mut p: Vec<P> = h2.iter().map(|t| T(t)).collect();
            p.extend(vec![T("("), C(param(ty("uint256"), None, None)), T(","), C(param(e, None, None)), T(")"), T(";")]);
            w(node("FunctionDefinition", p))
        }));
        let h3 = head.clone();
        v.push(ctx(&format!("{}.returns.ty", label), E(14), move |e| {
            let mut p: Vec<P> = h3.iter().map(|t| T(t)).collect();
            p.extend(vec![T("("), T(")"), T("internal"), T("returns"), T("("), C(param(e, None, Some("r"))), T(")"), C(block(vec![]))]);
            w(node("FunctionDefinition", p))
        }));
        if label != "oldstyle" {
            let h4 = head.clone();
            v.push(ctx(&format!("{}.modifier.arg", label), E(14), move |e| {
                let mut p: Vec<P> = h4.iter().map(|t| T(t)).collect();
                p.extend(vec![
                    T("("),
                    T(")"),
                    T("public"),
                    T("virtual"),
                    T("onlyX"),
                    T("mod"),
                    T("("),
                    C(e),
                    T(")"),
                    T("override"),
                    T("("),
                    T("A"),
                    T(","),
                    T("L"),
                    T("."),
                    T("B"),
                    T(")"),
                    C(block(vec![])),
                ]);
                w(node("FunctionDefinition", p))
            }));
            let h5 = head.clone();
            v.push(ctx(&format!("{}.modifier.arg2.returns", label), E(14), move |e| {
                let mut p: Vec<P> = h5.iter().map(|t| T(t)).collect();
                p.extend(vec![
                    T("("),
                    C(param(ty("uint256"), None, Some("a"))),
                    T(")"),
                    T("L"),
                    T("."),
                    T("mod"),
                    T("("),
                    C(var("k")),
                    T(","),
                    C(e),
                    T(")"),
                    T("payable"),
                    T("returns"),
                    T("("),
                    C(param(ty("bool"), None, None)),
                    T(")"),
                    C(block(vec![])),
                ]);
                w(node("FunctionDefinition", p))
            }));
        }
    }
    // statements' own expression operands are covered by the statement alternatives (Σ_C), but the
    // canonical statement context is needed for Σ_A as well:
    v.push(ctx("stmt.expr", E(14), |e| in_func(expr_stmt(e))));
    // idioms of the detectors with ONE operand left open (used twice where the idiom repeats it): every expression
    // alternative appears as the index of an array update, the argument of address(...), the condition of a require,
    // the operand next to a power of two, the base of `.length` / `.balance` / `.transfer`, the argument of keccak256
    // and selfdestruct, the other side of `== true`, the operand of an increment
    fn asg(k: &'static str, op: &'static str, l: Frag, r: Frag) -> Frag {
        bin(k, op, 14, 13, 14, l, r)
    }
    v.push(ctx("idiom.array_update.index", E(14), move |e| in_func(expr_stmt(asg("Assign", "=", subscript(var("arr"), e.clone()), bin("Add", "+", 5, 5, 4, subscript(var("arr"), e), var("q")))))));
    v.push(ctx("idiom.array_update.compound", E(14), move |e| in_func(expr_stmt(asg("AssignAdd", "+=", subscript(var("arr"), e), var("q"))))));
    v.push(ctx("idiom.mapping_update.nested", E(14), move |e| {
        in_func(expr_stmt(asg("Assign", "=", subscript(subscript(var("m"), e.clone()), var("k")), bin("Subtract", "-", 5, 5, 4, subscript(subscript(var("m"), e), var("k")), num("1")))))
    }));
    v.push(ctx("idiom.array_update.base", E(14), move |e| in_func(expr_stmt(asg("Assign", "=", subscript(e.clone(), num("0")), bin("Add", "+", 5, 5, 4, subscript(e, num("0")), var("q")))))));
    v.push(ctx("idiom.require.cond", E(14), |e| in_func(expr_stmt(call(var("require"), vec![e, strlit("m")])))));
    v.push(ctx("idiom.require.and", E(14), |e| in_func(expr_stmt(call(var("require"), vec![bin("And", "&&", 12, 12, 11, e, var("p")), strlit("this revert string is longer than thirty-two bytes")])))));
    v.push(ctx("idiom.address.eq", E(14), |e| in_func(expr_stmt(bin("Equal", "==", 11, 11, 10, call(ty("address"), vec![e]), var("u"))))));
    v.push(ctx("idiom.address.ne", E(14), |e| in_func(expr_stmt(bin("NotEqual", "!=", 11, 11, 10, e, call(ty("address"), vec![num("0")]))))));
    v.push(ctx("idiom.mul.pow2", E(14), |e| in_func(expr_stmt(asg("Assign", "=", var("q"), bin("Multiply", "*", 4, 4, 3, e, num("8")))))));
    v.push(ctx("idiom.div.pow2", E(14), |e| in_func(expr_stmt(asg("Assign", "=", var("q"), bin("Divide", "/", 4, 4, 3, e, num("4")))))));
    v.push(ctx("idiom.div_then_mul", E(14), |e| in_func(expr_stmt(asg("Assign", "=", var("q"), bin("Multiply", "*", 4, 4, 3, bin("Divide", "/", 4, 4, 3, e.clone(), var("r")), e))))));
    v.push(ctx("idiom.length.base", E(14), |e| {
        in_func(node(
            "For",
            vec![T("for"), T("("), C(node("VariableDefinition", vec![C(ty("uint256")), T("i"), T("="), C(num("0")), T(";")])), C(bin("Less", "<", 10, 10, 9, var("i"), member(e, "length"))), T(";"), C(simple_expr(nodep("PostIncrement", 0, vec![C(var("i")), T("++")]))), T(")"), C(block(vec![]))],
        ))
    }));
    v.push(ctx("idiom.balance.base", E(14), |e| in_func(expr_stmt(asg("Assign", "=", var("q"), member(call(ty("address"), vec![e]), "balance"))))));
    v.push(ctx("idiom.transfer.base", E(14), |e| in_func(expr_stmt(call(member(e, "transfer"), vec![var("u"), var("w")])))));
    v.push(ctx("idiom.transfer.arg", E(14), |e| in_func(expr_stmt(call(member(var("t"), "transferFrom"), vec![var("u"), e.clone(), e])))));
    v.push(ctx("idiom.keccak.arg", E(14), |e| in_func(expr_stmt(asg("Assign", "=", var("h"), call(var("keccak256"), vec![e]))))));
    v.push(ctx("idiom.keccak.abi", E(14), |e| in_func(expr_stmt(asg("Assign", "=", var("h"), call(var("keccak256"), vec![call(member(var("abi"), "encodePacked"), vec![e, var("q")])]))))));
    v.push(ctx("idiom.selfdestruct.arg", E(14), |e| in_func(expr_stmt(call(var("selfdestruct"), vec![e])))));
    v.push(ctx("idiom.bool.eq", E(14), |e| in_func(expr_stmt(asg("Assign", "=", var("b"), bin("Equal", "==", 11, 11, 10, e, nodep("BoolLiteral", 0, vec![T("true")])))))));
    v.push(ctx("idiom.bool.ne", E(14), |e| in_func(expr_stmt(asg("Assign", "=", var("b"), bin("NotEqual", "!=", 11, 11, 10, nodep("BoolLiteral", 0, vec![T("false")]), e))))));
    v.push(ctx("idiom.compare.ge", E(14), |e| in_func(expr_stmt(asg("Assign", "=", var("b"), bin("MoreEqual", ">=", 10, 10, 9, e.clone(), e))))));
    v.push(ctx("idiom.assign.self_add", E(14), |e| in_func(expr_stmt(asg("Assign", "=", var("k"), bin("Add", "+", 5, 5, 4, var("k"), e))))));
    v.push(ctx("idiom.state.assign", E(14), |e| in_func(expr_stmt(asg("Assign", "=", var("s0"), e)))));
    v
}

/// Name-value attribute (`name = literal`): literal class only.
pub fn namevalue_ctx(lit: Frag) -> Frag {
    in_contract(node(
        "FunctionDefinition",
        vec![T("function"), T("f"), T("("), T(")"), T("public"), T("nv"), T("="), C(lit), C(block(vec![]))],
    ))
}

/// A variable-definition type slot (`NoFunctionTyPrecedence0`) does not admit a bare function type
/// nor anything weaker than precedence 0.
fn guard_ty(e: Frag) -> Frag {
    if e.prec > 0 {
        paren(e)
    } else {
        e
    }
}

// ------------------------------------------------------------------------------ enumeration

pub struct Prog {
    pub toks: Vec<String>,
    pub nodes: Vec<(usize, &'static str)>,
    pub tag: String,
}

impl Prog {
    pub fn from(f: Frag, tag: String) -> Prog {
        Prog { toks: f.toks, nodes: f.nodes, tag }
    }
    pub fn key(&self) -> u64 {
        use std::hash::{Hash, Hasher};
        let mut h = std::collections::hash_map::DefaultHasher::new();
        self.toks.hash(&mut h);
        h.finish()
    }
}

fn filler(i: usize) -> Frag {
    var(["a", "b", "c", "d", "e"][i % 5])
}
fn stmt_filler(i: usize) -> Frag {
    expr_stmt(var(["sa", "sb", "sc", "sd", "se"][i % 5]))
}

/// build alternative `alt` with `inner` (if any) placed in hole `pos`, minimal fillers elsewhere
pub fn build_e(alt: &EAlt, pos: Option<(usize, &Frag)>) -> Frag {
    let hs: Vec<Frag> = alt
        .holes
        .iter()
        .enumerate()
        .map(|(i, &c)| match pos {
            Some((p, f)) if p == i => fit(c, f),
            _ => fit(c, &filler(i)),
        })
        .collect();
    (alt.build)(&hs)
}

fn fill_hole(h: H, i: usize, inner: Option<&Frag>) -> Frag {
    match (h, inner) {
        (H::E(c), Some(f)) => fit(c, f),
        (H::E(0), None) => ty("uint256"),
        (H::E(c), None) => fit(c, &filler(i)),
        (H::St, Some(f)) => f.clone(),
        (H::StClosed, Some(f)) => closed(f),
        (H::Blk, Some(f)) => f.clone(),
        (H::Simple, Some(f)) => f.clone(),
        (H::St, None) | (H::StClosed, None) => stmt_filler(i),
        (H::Blk, None) => block(vec![]),
        (H::Simple, None) => simple_expr(filler(i)),
    }
}

pub fn build_s(alt: &SAlt, pos: Option<(usize, &Frag)>) -> Frag {
    let hs: Vec<Frag> = alt
        .holes
        .iter()
        .enumerate()
        .map(|(i, &h)| match pos {
            Some((p, f)) if p == i => fill_hole(h, i, Some(f)),
            _ => fill_hole(h, i, None),
        })
        .collect();
    (alt.build)(&hs)
}

/// All expression fragments that are chains of `depth` alternatives (innermost one with minimal
/// fillers), labelled.  depth 1 = every alternative alone.
pub fn expr_chains(alts: &[EAlt], depth: usize, inner_filter: &dyn Fn(&EAlt) -> bool) -> Vec<(String, Frag)> {
    let mut cur: Vec<(String, Frag)> = alts.iter().filter(|a| inner_filter(a)).map(|a| (a.name.clone(), build_e(a, None))).collect();
    for _ in 1..depth {
        let mut next = Vec::new();
        for a in alts.iter().filter(|a| !a.atom) {
            for h in 0..a.holes.len() {
                for (n, f) in &cur {
                    next.push((format!("{}[{}]<-{}", a.name, h, n), build_e(a, Some((h, f)))));
                }
            }
        }
        cur = next;
    }
    cur
}

/// Statement chains: `depth` nested statement alternatives, the innermost statement hole filled by
/// `leaf`.  Every statement-typed hole of every alternative is used.
pub fn stmt_chains(salts: &[SAlt], simples: &[SAlt], depth: usize, leaves: &[(String, Frag)]) -> Vec<(String, Frag)> {
    let mut cur: Vec<(String, Frag)> = leaves.to_vec();
    for _ in 0..depth {
        let mut next = Vec::new();
        for a in salts {
            for (hi, h) in a.holes.iter().enumerate() {
                match h {
                    H::St | H::StClosed | H::Blk => {
                        for (n, f) in &cur {
                            next.push((format!("{}[{}]<-{}", a.name, hi, n), build_s(a, Some((hi, f)))));
                        }
                    }
                    H::Simple => {
                        // a simple statement hole takes simple alternatives only
                        let _ = simples;
                    }
                    H::E(_) => {}
                }
            }
        }
        cur = next;
    }
    cur
}

/// Statements with an expression placed in each of their expression holes (including the holes of
/// the simple statements inside `for` headers).
pub fn stmt_expr_holes(salts: &[SAlt], simples: &[SAlt], exprs: &[(String, Frag)]) -> Vec<(String, Frag)> {
    let mut out = Vec::new();
    for a in salts {
        for (hi, h) in a.holes.iter().enumerate() {
            match h {
                H::E(_) => {
                    for (n, f) in exprs {
                        out.push((format!("{}[{}]<-{}", a.name, hi, n), build_s(a, Some((hi, f)))));
                    }
                }
                H::Simple => {
                    for s in simples {
                        for (shi, sh) in s.holes.iter().enumerate() {
                            if let H::E(_) = sh {
                                for (n, f) in exprs {
                                    let sf = build_s(s, Some((shi, f)));
                                    out.push((format!("{}[{}]<-{}[{}]<-{}", a.name, hi, s.name, shi, n), build_s(a, Some((hi, &sf)))));
                                }
                            }
                        }
                    }
                }
                _ => {}
            }
        }
    }
    out
}

// ------------------------------------------------------------------------------ rendering

/// Canonical layout L1: one token per line, LF-terminated.  Returns (text, byte offset per token).
pub fn render_l1(toks: &[String]) -> (String, Vec<usize>) {
    let mut s = String::new();
    let mut offs = Vec::with_capacity(toks.len());
    for t in toks {
        offs.push(s.len());
        s.push_str(t);
        s.push('\n');
    }
    (s, offs)
}

pub fn render_sp(toks: &[String]) -> String {
    toks.join(" ")
}

// ------------------------------------------------------------------------------ conformance

/// Compare the generator's belief with the real parse tree.  Ok(number of nodes) or a description.
pub fn conform(p: &Prog, tree: &RTree, offs: &[usize]) -> Result<usize, String> {
    let mut real: Vec<(usize, &'static str)> = Vec::new();
    for n in &tree.nodes {
        if n.class == Class::Aux {
            continue;
        }
        let tok = if n.class == Class::SourceUnit {
            0
        } else {
            match offs.binary_search(&n.start) {
                Ok(i) => i,
                Err(_) => return Err(format!("node {} starts at byte {} which is not a token start", n.kind, n.start)),
            }
        };
        real.push((tok, n.kind));
    }
    if real != p.nodes {
        let mut i = 0;
        while i < real.len() && i < p.nodes.len() && real[i] == p.nodes[i] {
            i += 1;
        }
        return Err(format!(
            "tree mismatch at pre-order index {}: parser has {:?}, generator believed {:?}",
            i,
            real.get(i),
            p.nodes.get(i)
        ));
    }
    Ok(real.len())
}
