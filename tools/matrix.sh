#!/bin/bash
# tools/matrix.sh [patch...]: kill matrix of property-breaking patches against all quick checks,
# run in an isolated copy (git worktree of /repo + copy of /verif) so that /repo and /verif stay usable.
# Output: /verif/mutants/matrix.tsv  (patch, check, exit code, violation count)
set -u
MX=${MX:-/tmp/mx}
rm -rf $MX; mkdir -p $MX
git -C /repo worktree add -q --detach $MX/repo ${BASE:-HEAD} || exit 2
mkdir -p $MX/verif
cp -r /verif/harness /verif/check /verif/known_findings.json /verif/MANIFEST.json $MX/verif/
rm -rf $MX/verif/harness/target
sed -i "s#path = \"/repo\"#path = \"$MX/repo\"#" $MX/verif/harness/Cargo.toml
export VERIF_HOME=$MX/verif SOLSTAT_REPO=$MX/repo
out=${OUT:-/verif/mutants/matrix.tsv}
: > $out.tmp
patches=("$@")
if [ ${#patches[@]} -eq 0 ]; then patches=(/verif/seeded/*/patch.diff /verif/mutants/*.diff); fi
# SHARD=i/n keeps every n-th patch starting at i (to run several isolated copies side by side)
if [ -n "${SHARD:-}" ]; then
  i=${SHARD%/*}; n=${SHARD#*/}; sel=(); k=0
  for p in "${patches[@]}"; do [ $((k % n)) -eq $i ] && sel+=("$p"); k=$((k+1)); done
  patches=("${sel[@]}")
fi
checks="${CHECKS:-C01 C02 C03 C04 C05 C06 C07 C08 C09 C10 C11 C12 C13 C14 C15 C16 C17 C18 C19}"
$MX/verif/check build || exit 2
for p in "${patches[@]}"; do
  name=$(echo $p | sed 's#/verif/##; s#/patch.diff##; s#mutants/##; s#seeded/##; s#.diff##')
  if ! git -C $MX/repo apply --check "$p" 2>/dev/null; then echo -e "$name\t-\tnoapply\t0" >> $out.tmp; continue; fi
  git -C $MX/repo apply "$p"
  run_checks="$checks"
  if [ -n "${OWN:-}" ]; then
    # only the check of the property the change was written against (seeded/Cnn-x, regress-Cnn[Cmm]-...)
    run_checks=$(echo "$name" | grep -oE 'C[0-9]{2}' | sort -u | tr '\n' ' ')
  fi
  for c in $run_checks; do
    o=$($MX/verif/check $c quick 2>&1); code=$?
    nv=$(echo "$o" | grep -c '^VIOLATION')
    echo -e "$name\t$c\t$code\t$nv" >> $out.tmp
  done
  git -C $MX/repo checkout -q -- . ; git -C $MX/repo clean -fdq
done
mv $out.tmp $out
git -C /repo worktree remove --force $MX/repo; rm -rf $MX
echo "matrix written to $out"
