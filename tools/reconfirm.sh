#!/bin/bash
# tools/reconfirm.sh <seed-id>...: re-confirm stored seeded changes against /repo HEAD in one scratch worktree
RC=/tmp/rc
export CARGO_NET_OFFLINE=true
[ -d $RC ] || git -C /repo worktree add -q --detach $RC HEAD
cd $RC && git checkout -q --detach $(git -C /repo rev-parse HEAD)
for id in "$@"; do
  sd=/verif/seeded/$id
  git checkout -q -- . ; rm -rf tests
  git apply $sd/patch.diff || { echo "$id: patch does not apply"; continue; }
  suite=$(cargo test --workspace --no-fail-fast --offline 2>&1 | grep -E '^test result' | tr '\n' ' ')
  if [ -f $sd/demo.rs ]; then
    mkdir -p tests; cp $sd/demo.rs tests/seed_demo.rs
    cargo test --offline --test seed_demo >/dev/null 2>&1; with=$?
    git checkout -q -- . ; cargo test --offline --test seed_demo >/dev/null 2>&1; without=$?
    rm -rf tests
  else
    sed "s#/tmp/wt[0-9]*/C[0-9]*#$RC#g" $sd/demo.sh > /tmp/rc_demo.sh
    bash /tmp/rc_demo.sh >/dev/null 2>&1; with=$?
    git checkout -q -- . ; bash /tmp/rc_demo.sh >/dev/null 2>&1; without=$?
  fi
  echo "$id: suite[$suite] demo_with=$with demo_without=$without"
done
git checkout -q -- .
