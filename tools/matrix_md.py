#!/usr/bin/env python3
"""Rewrites the kill-matrix table between the MATRIX markers of DESIGN.md.

Sources (later files override earlier ones, cell by cell):
  mutants/matrix_r123.tsv          full cross matrix, rounds 1-3 + regression patches (checks as of round 3)
  mutants/matrix_partial_full.tsv  partial cross matrix, checks as of round 5 (stopped: too slow next to other jobs)
  mutants/own_r1to6.tsv            every stored change against the check of its own property, current checks
  mutants/own_r7.tsv               the same for round 7
  mutants/own_all.tsv              every stored change of rounds 1-8 and every regression patch against its own check, checks as of
                                   round 8; own_all_recheck.tsv: the one that had gone quiet (C05-f), after the correction
  mutants/own_r9.tsv               round 9: the first-pass rows that were caught, and for the others the individual re-runs
                                   (tools/mut.sh) after the checks were strengthened
  mutants/own_r10.tsv              round 10, built like own_r9.tsv
  mutants/own_base_c458e1f.tsv     the five changes that apply to c458e1f only (they edit code that the fix 79f35fd changed)
A blank cell = that (change, check) pair was not run."""
import collections, os, re
by=collections.OrderedDict()
def load(f):
    p='/verif/mutants/'+f
    if not os.path.exists(p): return
    for l in open(p):
        l=l.rstrip('\n')
        if not l.strip(): continue
        name,c,code,nv=l.split('\t')
        if c=='-': continue
        by.setdefault(name,{})[c]=code
for f in ['matrix_r123.tsv','matrix_partial_full.tsv','own_r1to6.tsv','own_r7.tsv','own_all.tsv','own_all_recheck.tsv','own_r9.tsv','own_r10.tsv','own_base_c458e1f.tsv']:
    load(f)
def key(n):
    m=re.match(r'(C\d\d)-([a-z]+)$',n)
    return (0,m.group(1),len(m.group(2)),m.group(2)) if m else (1,n,0,'')
names=sorted(by,key=key)
checks=["C%02d"%i for i in range(1,20)]
lines=["| change | "+" | ".join(c[1:] for c in checks)+" |","|---|"+"|".join("--" for _ in checks)+"|"]
for name in names:
    d=by[name]
    lines.append("| "+name+" | "+" | ".join("X" if d.get(c)=='1' else ("·" if d.get(c)=='0' else ("m" if d.get(c) else " ")) for c in checks)+" |")
p='/verif/DESIGN.md'
s=open(p).read()
i=s.index("<!-- MATRIX-BEGIN -->")+len("<!-- MATRIX-BEGIN -->\n")
j=s.index("<!-- MATRIX-END -->")
s=s[:i]+"\n".join(lines)+"\n"+s[j:]
open(p,'w').write(s)
own_missed=[n for n in names if not any(by[n].get(c)=='1' for c in checks if c in n)]
print(len(names),'changes;', 'not caught by own check:', own_missed)
