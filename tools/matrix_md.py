#!/usr/bin/env python3
"""Rewrites the kill-matrix table between the MATRIX markers of DESIGN.md from mutants/matrix.tsv."""
import collections
rows=[l.rstrip('\n').split('\t') for l in open('/verif/mutants/matrix.tsv') if l.strip()]
by=collections.OrderedDict()
for name,c,code,nv in rows:
    by.setdefault(name,{})[c]=code
checks=["C%02d"%i for i in range(1,20)]
lines=["| change | "+" | ".join(c[1:] for c in checks)+" |","|---|"+"|".join("--" for _ in checks)+"|"]
for name,d in by.items():
    lines.append("| "+name+" | "+" | ".join("X" if d.get(c)=='1' else ("·" if d.get(c)=='0' else ("m" if d.get(c) else " ")) for c in checks)+" |")
p='/verif/DESIGN.md'
s=open(p).read()
i=s.index("<!-- MATRIX-BEGIN -->")+len("<!-- MATRIX-BEGIN -->\n")
j=s.index("<!-- MATRIX-END -->")
s=s[:i]+"\n".join(lines)+"\n"+s[j:]
open(p,'w').write(s)
own_missed=[n for n,d in by.items() if not any(d.get(c)=='1' for c in checks if c in n)]
print(len(by),'changes;', 'not caught by own check:', own_missed)
