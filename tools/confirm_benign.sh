#!/bin/bash
# tools/confirm_benign.sh <Cnn>: for the property-preserving changes p, q, r of one scratch worktree ($WT/Cnn):
# the patch applies, the repository's suite passes with it; then it is stored under /verif/benign/Cnn-x/.
id=$1; wt=${WT:-/tmp/wt6}/$id
cd $wt || exit 2
export CARGO_NET_OFFLINE=true
for v in ${VARIANTS:-p q r}; do
  sd=$wt/SEED/$v
  [ -f $sd/patch.diff ] || continue
  git reset -q; git checkout -q -- . ; git clean -fdq -- src docs tests 2>/dev/null
  if ! git apply --check $sd/patch.diff 2>/dev/null; then echo "$id-$v: patch does not apply"; continue; fi
  git apply $sd/patch.diff
  suite=$(cargo test --workspace --no-fail-fast --offline 2>&1 | grep -E '^test result' | tr '\n' ' ')
  git reset -q; git checkout -q -- . ; git clean -fdq -- src docs tests 2>/dev/null
  if echo "$suite" | grep -q 'FAILED\|[1-9][0-9]* failed' || [ -z "$suite" ]; then echo "$id-$v: suite fails: $suite"; continue; fi
  dst=/verif/benign/$id-$v; mkdir -p $dst
  cp $sd/patch.diff $dst/
  python3 - "$sd/meta.json" "$dst/meta.json" "$id" "$suite" <<'PY'
import json,sys
src,dst,pid,suite=sys.argv[1:5]
try: m=json.load(open(src))
except Exception: m={}
out={"preserves_property":pid,"kind":m.get("kind",""),"summary":m.get("summary",""),"why_property_still_holds":m.get("why_property_still_holds",""),
 "observable_differences":m.get("observable_differences",""),"files_changed":m.get("files_changed",[]),
 "origin":"written by an independent sub-agent that saw only the property text and a scratch worktree of /repo (no access to /verif); asked for changes after which the property STILL holds",
 "confirmed_by_me":{"what_i_ran":["git apply patch.diff (scratch worktree at the repo HEAD)","cargo test --workspace --no-fail-fast --offline"],"suite_with_change":suite.strip()}}
json.dump(out,open(dst,'w'),indent=1,ensure_ascii=False)
PY
  echo "$id-$v: stored"
done
