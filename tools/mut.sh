#!/bin/bash
# tools/mut.sh <patch.diff> <Cnn> [Cnn...]  : apply a property-breaking patch to /repo, run the quick
# checks, print exit codes and VIOLATION lines, and always restore /repo afterwards.
patch="$(readlink -f "$1")"; shift
cd /repo || exit 2
if ! git diff --quiet; then echo "/repo has uncommitted changes; refusing" >&2; exit 2; fi
if ! git apply --check "$patch" 2>/dev/null; then echo "PATCH DOES NOT APPLY: $patch"; exit 3; fi
git apply "$patch"
trap 'git -C /repo checkout -- . ; git -C /repo clean -fdq -- src docs >/dev/null 2>&1' EXIT
cd /verif
for c in "$@"; do
  out=$(./check "$c" ${TIER:-quick} 2>&1); code=$?
  nv=$(echo "$out" | grep -c '^VIOLATION')
  echo "== $(basename $(dirname $patch))/$(basename $patch) :: $c exit=$code violations=$nv"
  echo "$out" | grep -E '^  site=' | head -${SHOW:-4}
  echo "$out" | grep -E 'MACHINERY' | head -3
done
