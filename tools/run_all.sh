#!/bin/bash
# tools/run_all.sh [quick|thorough]: run every check on the current tree and validate the evidence files
tier=${1:-quick}
cd /verif
rc=0
for i in 01 02 03 04 05 06 07 08 09 10 11 12 13 14 15 16 17 18 19; do
  out=$(./check C$i $tier 2>&1); code=$?
  echo "$out" | grep -E '^\[C|^VIOLATION|^KNOWN|MACHINERY' 
  [ $code -ne 0 ] && { echo "C$i exit $code"; rc=1; }
done
python3-vt - <<'PY'
import json,jsonschema,glob
jsonschema.validate(json.load(open('/verif/MANIFEST.json')), json.load(open('/root/.vp/MANIFEST.schema.json')))
n=0
for f in sorted(glob.glob('/verif/evidence/*.json')):
    jsonschema.validate(json.load(open(f)), json.load(open('/root/.vp/EVIDENCE.schema.json'))); n+=1
print('manifest + %d evidence files valid' % n)
PY
exit $rc
