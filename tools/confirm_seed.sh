#!/bin/bash
# tools/confirm_seed.sh <Cnn> <a|b>: confirm a seeded change in its scratch worktree /tmp/wt/Cnn
# (suite passes with it, demonstration fails with it and passes without) and copy it to /verif/seeded.
id=$1; v=$2; wt=${WT:-/tmp/wt}/$id; sd=$wt/SEED/$v
cd $wt || exit 2
export CARGO_NET_OFFLINE=true
git checkout -q -- . 2>/dev/null; rm -f tests/seed_demo.rs
res() { echo "$1" >> $sd/confirm.log; }
: > $sd/confirm.log
git apply --check $sd/patch.diff || { res "patch does not apply"; exit 1; }
git apply $sd/patch.diff
suite=$(cargo test --workspace --no-fail-fast --offline 2>&1 | grep -E '^test result' | tr '\n' ' ')
res "suite_with_change: $suite"
echo "$suite" | grep -q 'FAILED\|[1-9][0-9]* failed' && suite_ok=false || suite_ok=true
if [ -f $sd/demo.rs ]; then
  mkdir -p tests; cp $sd/demo.rs tests/seed_demo.rs
  cargo test --offline --test seed_demo >/dev/null 2>&1; with=$?
  git checkout -q -- . ; git clean -fdq -- src docs 2>/dev/null
  cargo test --offline --test seed_demo >/dev/null 2>&1; without=$?
  rm -f tests/seed_demo.rs; rmdir tests 2>/dev/null
  demo=demo.rs
else
  bash $sd/demo.sh >/dev/null 2>&1; with=$?
  git checkout -q -- . ; git clean -fdq -- src docs 2>/dev/null
  bash $sd/demo.sh >/dev/null 2>&1; without=$?
  demo=demo.sh
fi
git checkout -q -- . 
res "demo_exit_with_change: $with"; res "demo_exit_without_change: $without"
if $suite_ok && [ $with -ne 0 ] && [ $without -eq 0 ]; then
  dst=/verif/seeded/$id-$v; mkdir -p $dst
  cp $sd/patch.diff $sd/$demo $dst/
  python3 - "$sd/meta.json" "$dst/meta.json" "$id" "$suite" "$with" "$without" "$demo" <<'PY'
import json,sys
src,dst,pid,suite,w,wo,demo=sys.argv[1:8]
try: m=json.load(open(src))
except Exception: m={}
out={"breaks_property":pid,"summary":m.get("summary",""),"needs_to_manifest":m.get("needs_to_manifest",""),"files_changed":m.get("files_changed",[]),
 "origin":"written by an independent sub-agent that saw only the property text and a scratch worktree of /repo (no access to /verif)",
 "confirmed_by_me":{"what_i_ran":["git apply patch.diff (scratch worktree at the repo HEAD)","cargo test --workspace --no-fail-fast --offline  (existing suite)",f"{demo} with the change applied",f"{demo} on the unchanged tree"],
   "suite_with_change":suite.strip(),"demo_exit_with_change":int(w),"demo_exit_without_change":int(wo)}}
json.dump(out,open(dst,'w'),indent=1,ensure_ascii=False)
PY
  res "CONFIRMED"
else
  res "NOT CONFIRMED"
fi
tail -1 $sd/confirm.log
