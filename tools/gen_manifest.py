#!/usr/bin/env python3
"""Regenerates /verif/MANIFEST.json from the table below (run after adding a check)."""
import json, subprocess

CHECKS = {
 "C01": dict(engine="synth+rtree+c01", ref="7/C01, 4, 5.1-5.2",
   text="Bounded-exhaustive exploration of the real walk_node_for_targets / extract_target(s)_from_node: every program of the grammar-transcribed space Σ (all derivation paths up to length 2 quick / 3 thorough, every node kind in every parse-tree slot), every node of every program as search root, full / singleton / detector / mixed (statement + expression kind sharing a location) target sets through all three entry points, constructs nested 65–130 deep, compared with an independent wildcard-free reference traversal. Right level: the property quantifies over tree shapes and positions, which is a finite space once the path length is bounded; the traversal's defects are local to one (parent, field) pair and show on minimal programs.",
   note="Trusted: solang-parser 0.1.18 (parse tree and locations), rustc exhaustiveness checking of the reference conversion. Bounded by path length; programs beyond it are not explored.",
   technique="bounded-exhaustive input-space enumeration (small-scope model checking) of the implementation against a reference traversal; generator traces validated against the parser"),
 "C02": dict(engine="c02+refdet+layout", ref="7/C02, 6, 8",
   text="(a) Exhaustive enumeration of all texts of length <= 6 (quick) / 8 (thorough) over {a, é, LF, CR, space} x every offset at which a token can start, plus all token offsets of Σ_small under the layout space Λ, through the real get_line_number, against 1 + #LF before the offset computed by the harness. (b) Σ x 30 detectors on the one-token-per-line layout: every reported line must be an admissible anchor (first token) of a construct the reference detectors know, never an interior token (with no gray construct in the program and as many reported lines as canonical constructs, the lines must be exactly the anchor lines). (c) Equal-length re-layouts (blank vs line feed at one gap) analysed back to back on one thread. (d) The same layouts, including leading white space, through analyze_dir. The conversion is a function of (text, offset) whose defects are local (last line, CR, multi-byte), so a complete small alphabet decides it.",
   note="Trusted: solang-parser locations; the harness's own line counting (1 + number of LF bytes). Bounded by text length and by Σ.",
   technique="bounded-exhaustive enumeration of texts x offsets and of programs x detectors against a reference line model"),
 "C04": dict(engine="c04", ref="7/C04",
   text="Every parser-accepted program of Σ plus the totality alphabets (number literals of every size/exponent in every operand position, argument-less calls, pragma placements and shapes, declaration shapes, Unicode identifiers, all 7^4 member-size sequences, counts 0..300 and 1000, nesting 1..64) x all 30 detectors x two build profiles (release; overflow checks + debug assertions on, as in a dev build), each profile in a child process under catch_unwind with a hang watchdog; a panic, abort, stack overflow or non-termination is a violation. Totality defects are local to one unwrap/index/parse site and are triggered by a small shape placed at that site, which the alphabets enumerate.",
   note="Trusted: solang-parser (what 'accepted' means). Non-termination is detected by a 10 s watchdog per detector call.",
   technique="bounded-exhaustive input-space enumeration under fault observation (panic / signal / hang) in two build profiles"),
 "C05": dict(engine="refdet+csem", ref="7/C05, 5.3, 8.1-8.11",
   text="Σ (every expression alternative and every idiom atom of section 8 in every syntactic hole, path length 2 quick / 3 thorough) plus the 2^k boundary family (k = 0..256, 2^k, 2^k±1, 2^k+2 in every operand position), index literals up to 2^256 in the canonical array update, every 8th program also under a CRLF layout, equal-length programs analysed back to back x the 11 expression-level detectors, token-precise on the one-token-per-line layout, against three-valued reference detectors transcribed from section 8: every canonical occurrence must be reported, every report must be anchored at a canonical or gray occurrence.",
   note="Trusted: the reference definitions of DESIGN.md section 8 (gray forms accepted either way), solang-parser. Bounded by path length.",
   technique="bounded-exhaustive input-space enumeration of the implementation against three-valued reference detectors"),
 "C17": dict(engine="c17+layout", ref="7/C17, 6",
   text="Σ_small (thorough: plus thinned Σ_B(2)/Σ_A(1)) x the layout space Λ: 27 uniform layouts, 3 tight and 3 compact layouts (no separator where the lexer needs none), 16 layouts with leading white space, every single-gap deviation with each of 8 separators (blank, LF, CRLF, tab, blank lines, block/line comments with code-like text and multi-byte characters); thorough adds all gap pairs on programs of <= 25 tokens. For each detector the tokens flagged on the canonical layout must be exactly the tokens flagged in every layout, lines being recomputed by the harness; all 30 detectors run on the uniform layouts so that comment text can never create a finding; the uniform layouts are also checked through analyze_dir.",
   note="Trusted: the harness's line computation; every layout is re-parsed to validate token preservation. Comments are not placed inside pragma directives (lexer mode).",
   technique="exhaustive enumeration of layouts with bounded deviations (0,1,2) from the default layout, differential oracle against the canonical layout"),
 "C06": dict(engine="refdet+csem", ref="7/C06, 8.12-8.16",
   text="Declaration space D: every member description (variable type x visibility x constant/immutable x underscore; function kind x visibility x mutability x body x underscore) alone in each of contract / abstract contract / library / interface, with <= 2 neighbours of 8 member kinds at every relative position, in both attribute orders, next to an interface / library declaring the same name, and as first / second / third item of multi-item files; for constructor_order ALL sequences over 7 member kinds up to length 5 in one contract and all pairs / triples of shorter sequences across contracts (both orders, free function in between), counts up to 513 functions; plus Σ_D. Oracle: reference detectors 8.12–8.16 with iff semantics, the verdict recomputed from the declaration (and, for constructor_order, the preceding members of its own contract) only, so any cross-contract influence is a violation.",
   note="Trusted: reference definitions of section 8 (decided alphabet; gray outside), solang-parser. Files with duplicate state-variable names are outside the quantifier and skipped.",
   technique="bounded-exhaustive enumeration of declaration sequences against iff reference detectors"),
 "C07": dict(engine="refdet+csem", ref="7/C07, 8.17-8.20",
   text="Σ plus three dedicated spaces: the selfdestruct matrix (function kind x visibility x modifier name x 18 guard forms (7 of which check an alias or look-alike and do not mention msg.sender) x 6 payout forms x callee, guard after the call or in another function, the call in every statement hole and in every expression hole of every statement, the sender check in an operand of the statement that holds the call), all {*,/,+} operator trees with <= 3 (4) operators with and without one, two and three levels of redundant parentheses under =, /= and *=, pragma values x unrelated pragmas x positions, and directory-level runs on spaced member accesses; x the 4 vulnerability detectors against the three-valued reference detectors 8.17–8.20.",
   note="Trusted: reference definitions of section 8 (gray: functions without visibility keyword, OnlyOwner-style names, mentions of msg.sender outside calls), solang-parser.",
   technique="bounded-exhaustive input-space enumeration of the implementation against three-valued reference detectors"),
 "C08": dict(engine="refdet+csem", ref="7/C08, 8.21-8.24",
   text="Write-site space W: a state variable declared in 7 (15) ways (plain, constructor-assigned, initialised, constant, immutable, several types and right-hand sides) in the same contract or in another contract before/after, crossed with one write of every form (11 assignment operators, prefix/postfix ++/--, gray forms through index, member, tuple, parenthesis, delete) placed in EVERY expression hole (declaration contexts such as base-constructor and modifier arguments and initialisers, every statement operand, every operand of every expression alternative) and every statement hole of every function kind; files with two constructors; histories of files analysed on one thread; thorough adds a second write site. memory_to_calldata: function kind x visibility x data location x named/unnamed x type x every write form in every hole of the body. Oracle: reference detectors 8.21–8.24 (never-suggest halves exact, always-suggest halves on elementary/value types).",
   note="Trusted: reference definitions of section 8; the quantifier's uniqueness of state-variable names is enforced by filtering. Bounded to one (two) write sites per file.",
   technique="bounded-exhaustive enumeration of (declaration form x write form x syntactic position) against reference detectors"),
 "C09": dict(engine="refdet+csem", ref="7/C09, 8.25-8.28",
   text="Every version triple {0,1} x {0..20} x {0..40} (quick: 10 patch values, product thinned away from the thresholds, full near them) x 11 operator spellings x 6 placements (unrelated pragmas before/after, solidity pragma last) x 3 bodies (SafeMath attached at contract level / file level / not attached) holding add/sub/mul/div call sites and require strings of 0,1,31,32,33,64 bytes and 16 two-byte characters; plus call sites and require strings in every syntactic hole for 0.7.6/0.8.0/0.8.3/0.8.4, and directory-level runs on unusual spellings of the directive (comments, tabs, CRLF between `pragma` and `solidity`). Oracle: thresholds 0.8.0 / 0.8.4 on the triple the harness printed; never both SafeMath detectors; monotonicity follows from agreement with the threshold function on the whole grid.",
   note="Trusted: reference definitions 8.25–8.28. Files with several or partial solidity pragmas are outside the quantifier (gray).",
   technique="exhaustive enumeration of the version grid x spellings x placements against a threshold oracle"),
 "C10": dict(engine="c10+refdet", ref="7/C10, 8.29-8.30",
   text="(i) get_type_size on every elementary type spelling (uint8..uint256, int8..int256, bytes1..bytes32, aliases) and every non-elementary kind parsed from a real declaration; (ii) storage_slots_used on ALL sequences of length 0..4 (quick, 1.08 M) / 0..5 (thorough, 34.6 M) over the 32 byte-granular sizes against an independently written first-fit model; (iii) pack_storage_variables and pack_struct_variables on parsed files whose contracts and structs (file-level and nested, with interleaved functions/events, type spellings rotated) realise every size sequence of length <= 3, every length-4 sequence over 12 sizes (quick) / all 32 (thorough) length 5 over 12 sizes (thorough), and contracts / structs of 250–300 members: reported => some permutation saves a slot (brute force over all permutations), both sort directions save => reported, declared optimal => never reported.",
   note="Trusted: the slot model as stated in the property (sizes, consecutive first-fit); members that are constant/immutable are outside the decided alphabet (gray).",
   technique="exhaustive enumeration of size sequences up to a length bound against a brute-force permutation oracle"),
 "C19": dict(engine="c19", ref="7/C19",
   text="All sequences with repetition of 2 items (x pragma placed first / between / last) and of 3 items (quick: every 4th; thorough: all) from a pool of 19 top-level item templates (contracts with constructor before/after functions, written / unwritten / constructor-assigned variables, single narrow variable, optimal and packable layouts, library, interface, free function, structs, constants, selfdestruct, memory parameters, unchecked blocks, require strings, ...), each instance with fresh identifier suffixes; for each of the 28 non-SafeMath detectors the lines reported for the whole file must equal the union of the lines reported for the item-wise blanked files (line breaks and pragmas kept). Leaks and suppressions are both violations.",
   note="Trusted: nothing beyond the detectors themselves: the oracle is differential (same detector on the blanked files). Bounded to 3 items from the pool.",
   technique="bounded-exhaustive enumeration of item sequences with a differential (compositionality) oracle"),
 "C03": dict(engine="fsx", ref="7/C03, 9, 10",
   text="Explicit-state exploration of (directory tree, listing order, pattern list): all trees with <= 4 (quick) / 6 (thorough) entries and depth <= 2 over files with findings for one / two patterns, blank files, finding-free files, ineligible files and same-named files with identical or shifted line sets, x EVERY permutation of EVERY directory's listing (owned through the cfg-guarded read_dir seam) x pattern lists (one, two in both orders, thorough: all), through the real analyze_dir of all three categories; sub-directories may be named like source files (lib.sol); in-process histories rewrite a file in place with other content of the same or another length between two analyses; oracle: sorted multiset of (file, line set) per pattern obtained by analysing each eligible file alone. Trees of <= 3 entries are replayed against the unhooked binary on tmpfs with a creation history that yields each root listing order (verified by reading the directory back), the report parsed back and compared.",
   note="Trusted: the seam returns the real entries in the requested order; tmpfs listing order is verified per state, unobtainable orders are counted, not assumed. Bounded by tree size and depth.",
   technique="explicit-state enumeration of environment answers (directory listing orders) and tree shapes against a per-file reference; hook-free replay of states on the real binary"),
 "C11": dict(engine="report", ref="7/C11",
   text="Findings maps as the analyser can produce them: all 16 vulnerability subsets x 1..3 files x name/line variants, all 8 QA subsets, optimisation singletons, all 253 pairs, full and empty maps, repeated file names with overlapping / identical line sets, keys without findings (empty file lists, empty line sets), all 8 category-presence combinations; file names with blanks, colons, non-ASCII, HTML / markdown characters, list-item and heading look-alikes; the report of the previous rendering stays in the working directory (a history); rendered through generate_vulnerability_report / generate_optimization_report / generate_qa_report and, in a scratch working directory, generate_report with the file read back. Oracle: tolerant parse-back (section texts taken from get_*_report_section of the same build): per pattern multiset(entries) = multiset(findings), section present exactly when the pattern has findings, no entry before the first section, a report file exists.",
   note="Trusted: the parse-back assumes only what the property states (list-item lines 'name:line', split at the last colon, attributed to the last preceding section text). Bounded: <= 3 files per pattern.",
   technique="exhaustive enumeration of findings maps (pattern subsets x multiplicities) with a parse-back round-trip oracle"),
 "C12": dict(engine="report", ref="7/C12",
   text="Same findings-map space as C11, in particular all 16 subsets of the four vulnerability patterns x file/line multiplicities and all 8 category-presence combinations. Oracle: the integer after 'Total' in each overview equals the number of entries parsed back from that part; a category part is present iff the category has findings; each vulnerability section lies under its own severity heading (table transcribed from the property) and a severity heading appears exactly when a finding of that severity exists; headings are recognised tolerantly (a markdown heading containing High / Medium / Low outside section texts).",
   note="Trusted: severity table from the property text; tolerant heading/total recognition.",
   technique="exhaustive enumeration of findings maps with recount / heading-structure oracles on the rendered report"),
 "C13": dict(engine="report+fsx", ref="7/C13",
   text="For every findings set (all 15 non-empty vulnerability subsets, all 7 QA subsets, optimisation windows of 2..4 (5) patterns) ALL n! iteration orders a HashMap can present are witnessed by constructing fresh maps (varying hasher instance, insertion order, capacity) until each order has appeared, crossed with all permutations of each pattern's file vector (same file name with different line sets included); every state is rendered by the real generate_*_report and all renderings of one set must be byte-identical. Directory level: analyze_dir + generate_report under every listing permutation of every directory (seam) and every order of the configured patterns, each rendering on a fresh OS thread, with a long stale report planted before the second rendering, over trees with equal-length sibling files and identical copies. Binary level (sampled, labelled): three runs of the unhooked binary on one directory.",
   note="Hash seeds are not enumerated; the iteration orders they induce are, completely, for n <= 4 (5) keys. The binary re-run is a sampled confirmation only.",
   technique="explicit-state enumeration of nondeterminism sources (all map iteration orders, all discovery and listing orders) with a byte-equality oracle"),
 "C16": dict(engine="fsx", ref="7/C16",
   text="Trees mixing 8 eligible files with 22 ineligible names (every letter-casing class of .sol / .t.sol, look-alike suffixes, names with multi-byte characters straddling suffix offsets) x 4 contents (valid Solidity with findings, empty, unparseable text, non-UTF-8 bytes, a narrowing configuration), alone, next to an eligible file, in pairs, at depth 0, 1, 2 and 70, in directories named like hidden, source and test files, under every listing order (seam); real analyze_dir of the three categories. Oracle: eligibility predicate from the property, per-file union of the eligible files, differential 'same result as the tree without its ineligible files', and no panic; binary-level replay of small trees.",
   note="Names containing '.t.sol' case-insensitively not as a suffix while ending in '.sol' are left out (the property does not classify them).",
   technique="explicit-state enumeration of directory contents and listing orders with predicate + differential ('as if absent') oracles"),
 "C14": dict(engine="binx", ref="7/C14",
   text="Name level: every pattern name parsed at run time from docs/identified-*.md, README.md and Solstat.toml x every letter casing (all 2^k casings for names of <= 12 (quick) / 22 (thorough) letters, otherwise Hamming balls of radius 2 / 3 around all-lower and all-upper plus alternating and every lower/upper split) through str_to_optimization / str_to_vulnerability / str_to_qa under catch_unwind: accepted, same pattern as the lower-case name, distinct names -> distinct patterns, every default pattern named. Binary level (unhooked binary, corpus directory with one file per pattern, each verified to have a finding of its own): no --toml (also with stray Solstat.toml files in the working and analysed directories), every singleton in up to 4 casings, ordered pairs within a category, cross-category triples, empty lists: the report's sections are exactly the selection; directory resolution over 5 --path values x 4 toml paths x ./contracts present/absent; unknown names (10 strings x 3 lists x 3 positions, plus names valid for another list and listed there, x pre-existing report or not): non-zero exit and the report neither created nor modified.",
   note="Trusted: the documentation parser (markdown table first column, toml string arrays); report sections recognised by the section texts of the same build. A toml file without 'path' is outside the explored space (the struct requires it).",
   technique="exhaustive enumeration of configurations (names x casings, selections, flag/file/default combinations, unknown-name placements) against the real binary and the real name tables"),
 "C15": dict(engine="c15", ref="7/C15",
   text="Baseline R0(file, pattern): the single call performed in a fresh subprocess. Explicit-state exploration of (a) all call histories of length 2 (thorough: length 3 over calls sharing a file or pattern) over files x 30 patterns x file numbers, each history on a fresh OS thread, the file alphabet containing pairs of equal byte length with different line layouts; (b) directories built from 1..3 files with the target at every listing position (seam), in sibling sub-directories or not, under reversed / rotated / reduced pattern selections; (c) EVERY call-level interleaving of 2 and 3 real OS threads under a baton (2+2, 1+1+1, 2+1 calls; 6, 6, 3 schedules each). Every result must equal R0. A free-running run of the same bodies on 4 unscheduled threads is a sampled extra, labelled as such.",
   note="Interleavings are explored at call granularity; that is complete as long as the source scan (reported in the evidence) finds no shared-state construct in /repo/src. If a change introduces shared state, leaks visible sequentially or at call granularity are still found; interleavings inside a call are probed only by the sampled free-running run.",
   technique="explicit-state exploration of call histories and of all call-level thread interleavings under a controlled scheduler (baton), differential oracle against fresh-process results"),
 "C18": dict(engine="binx", ref="7/C18",
   text="Breadth-first exploration of run histories of the unhooked binary, length <= 3 (quick) / 4 (thorough), over 21 actions: run from a working directory outside the tree / the parent of the analysed directory / the analysed directory itself / a sub-directory of it / the parent through a --toml file that lives elsewhere and names the tree relatively; edit the tree (add, change, remove a .sol file, make it finding-free); plant a left-over solstat_report.md (unrelated bytes, 1 MB, a longer stale report) or look-alike neighbours (solstat_report.md.tmp / .bak) in any of the working directories; the binary is started with PWD naming a different directory. After every run the whole scratch root is byte-compared with its snapshot before the run: only <cwd>/solstat_report.md may be created or replaced, it must exist, and it must be byte-identical to the report of a run on a fresh copy of the current tree from a clean working directory (so a stale report is overwritten, not appended to, and never influences the result).",
   note="Byte equality with the fresh run relies on deterministic rendering (C13). strace corroboration is not used for any verdict.",
   technique="explicit-state (BFS) exploration of operation histories of the real binary with file-system snapshot invariants and a fresh-run differential oracle"),
}
ALL = ["C%02d" % i for i in range(1, 20)]
# additions of seeding round 4, appended to the coverage statements above
R4 = {
 "C02": "Multi-part string literals (two and three adjacent parts) are atoms of Σ; the directory-level pass continues through the three report generators and reads the entries back.",
 "C03": "Plus a family of name relations: names that differ only in letter case (files and directories), byte-identical copies and same-named files with equal line sets in different directories, prefix names, directories named like source files, one name in two Unicode normal forms, several empty files.",
 "C04": "Plus all ordered pairs of 20 literals (zeros in every spelling, exact / inexact quotients, 2^128, 2^256) under 12 operator templates, and a cyclic-structure family (self / mutual recursion of internal, private, free and public functions, recursion through this / modifiers / overloads, inheritance cycles, self-containing structs, mutually defined constants) under three pragma settings. A suspected hang is confirmed alone in a fresh process (60 s) before it is reported.",
 "C08": "memory_to_calldata additionally over function names {f, own contract, another contract-like definition} x 6 pragma spellings x 4 kinds of the other definition x 3 holder kinds.",
 "C09": "Call sites and require strings also as statements in every statement hole of every statement alternative (blocks, unchecked blocks, loop bodies, branches, try success blocks with and without returns, catch clauses; depth 1 quick / 2 thorough) on either side of both thresholds.",
 "C10": "Contract headers rotate through plain / abstract / one base / base with arguments and a second base.",
 "C11": "Plus maps in which one (file, line) is a finding of several patterns: every ordered pair of patterns of a category with identical / overlapping / nested findings, all patterns of a category and all three categories with the same findings.",
 "C12": "Plus maps in which one (file, line) is a finding of several patterns (every ordered pair of patterns of a category, whole categories, all categories).",
 "C13": "Pattern-order exploration over all 30 patterns on files in which every pattern fires: every pair in both orders, the documented order against its reverse, every rotation and every transposition, each rendering on a fresh thread.",
 "C14": "Directory resolution additionally x configuration file in the working directory / in a sub-directory named relatively / absolutely (the sub-directory holds same-named directories with other contracts).",
 "C15": "Directory contexts include neighbours related to the observed file (byte-identical copies under other names, nested, three of them) and degenerate neighbours (empty, blank, comment-only, pragma-only source files) at every listing position.",
 "C16": "Plus trees in which several eligible files share a name and / or their content across directories and depths, mixed with ineligible files.",
 "C17": "The directory-level pass continues through the three report generators: per pattern, the entries read back are the lines of the flagged tokens in every layout (constructs sharing a line are all still listed).",
 "C18": "Every history is run from two initial trees: directories that hold contracts only, and contracts next to other files.",
 "C19": "The pool has 31 templates, seven of which refer by name to an enum, a user-defined value type or a struct declared in another item.",
}
for _k, _v in R4.items():
    CHECKS[_k]["text"] += " " + _v

# additions of seeding round 5
R5 = {
 "C01": "Σ also contains 25 idiom contexts (each idiom of section 8 with one operand left open, filled with every expression alternative).",
 "C02": "The item pool under 0.7.6 / 0.8.3 / 0.8.19 with SafeMath attached (chained calls, multi-part strings) is swept in location mode; Λ has 15 separators incl. exotic white space (VT, FF, NBSP, ideographic space) and annotation comments.",
 "C03": "Plus files that import each other (cyclic, self, missing, nested), a Base / Derived pair across files, and 30 directory / file names with characters special to shells, globs, lists, URLs and format strings next to a sibling named like the prefix.",
 "C04": "Plus 24 escape sequences (well-formed and cut short) x 4 literal kinds as revert string / hashed data under 0.8.3 and 0.8.19, and the 25 idiom contexts x every expression alternative.",
 "C05": "Idiom contexts: every expression alternative as the open operand of each idiom; && in later require arguments.",
 "C06": "Plus every permutation of {visibility, constant | immutable, override | override(I)} on state variables and 14 name shapes (upper case, digits, $, bare _, inner / trailing / double underscore, non-ASCII) for variables and functions.",
 "C08": "Parameter forms include reads of the parameter inside the index / key of another variable's assignment target.",
 "C09": "SafeMath attached also through a qualified path (using Math.SafeMath) and for *.",
 "C10": "Plus empty structs / contracts next to packable and optimal ones in every order, with and without a multi-byte header comment and without a trailing line feed; a panic while a container must be reported counts as a miss.",
 "C11": "Plus placeholder-like names ({line}, {}, %s, $1, ...), digit runs up to 2^64 and beyond, non-ASCII numerals (alone and in ordered pairs), and line sets with runs of adjacent lines and the lines 0, 1, i32::MAX.",
 "C12": "Plus line sets with runs of 2, 3, 5 adjacent lines and the lines 0, 1, i32::MAX for every pattern.",
 "C13": "All 30 patterns under every listing order (5! x 2!) of a tree with a Base / Derived pair; every 3-subset of 14 order-sensitive file names in all 6 discovery orders through each generator; thorough: up to 8 map keys (all 40 320 iteration orders witnessed).",
 "C14": "Unknown names include 17 pattern-like and prefix strings (sstor., .*, sstore|nothing, sstor, ...).",
 "C15": "Plus lists that name a pattern twice ([a, b, a] for every ordered pair of a category, [a, a]) and runs of the unhooked binary: every pattern alone and together with one pattern of each other category lists the same entries.",
 "C16": "Ineligible names with digit runs beyond u64 and non-ASCII numerals; an eligible pragma-less file that imports its ineligible neighbours by name; the selection includes the version-gated patterns.",
 "C17": "Λ has 15 separators incl. VT / FF / NBSP / ideographic space and annotation comments (NatSpec tags, linter directives).",
 "C18": "Histories of <= 2 runs also from a tree whose report exceeds a megabyte; histories of <= 2 actions also from a tree with control and quoting characters in file names.",
 "C19": "The pool has 36 templates, incl. items with doc comments inside and arithmetic in initialisers / base arguments.",
}
for _k, _v in R5.items():
    CHECKS[_k]["text"] += " " + _v

# additions of seeding round 6 and of the false-alarm hunt (DESIGN 15.6)
R6 = {
 "C04": "The command-line program itself, in its release and its dev build, is run on the deepest nesting family (63 / 64 levels of every nesting construct).",
 "C05": "A plain increment after a closed unchecked block in the same body, for every statement chain.",
 "C06": "constant / immutable / mapping variables among the neighbours of every member description.",
 "C08": "Holders with constant / immutable before and after a visibility keyword (12 declaration forms quick, 20 thorough).",
 "C14": "The corpus is spread over three directory levels; the section oracle takes 'which patterns have findings in the corpus' from the library of the same build; tolerant spellings of documented names are not treated as unknown names; a run counts as successful when it completes and writes its report, whatever its exit status.",
 "C15": "The binary pass also analyses two layouts of one body under one file name in sibling directories.",
 "C10": "A container counts as reported by a reported line anywhere inside it (not inside a nested verdict's construct).",

 "C03": "File labels are compared by their last path component; keys without findings and empty line sets are not findings.",
 "C12": "A vulnerability pattern the property does not name may stand under any severity heading.",
}
for _k, _v in R6.items():
    CHECKS[_k]["text"] += " " + _v

R7 = {
 "C02": "A second file of the directory-level pass; the shared pool of programs is swept in location mode.",
 "C05": "assign_update_array_value with all ten arithmetic and bitwise operators; multi-part require conditions; 25 idiom contexts per atom.",
 "C07": "Two and three modifiers per function, look-alike guards that do not mention msg.sender, doubly and triply parenthesised conditions.",
 "C08": "All eleven assignment operators in the quick tier; constructor bodies after string / abi statements; names crossed with pragma settings.",
 "C09": "Qualified, starred and multiple using-directives; statement-hole family; revert(\"...\") strings are gray.",
 "C11": "Report parse-back recognises a section by the first line of its text when the layout interleaves lines of its own; file names are masked outside entries.",
 "C12": "A total printed more than once is accepted when all copies agree; an empty rendering of an empty category is accepted.",
 "C13": "All 30 patterns under every listing order of a seven-entry tree with a nested directory and a .t.sol file; repeated-pattern selections; subsets up to 8 in the thorough tier.",
 "C15": "Binary co-selection pass (alone / one per other category / own full category / all), repeated-pattern selections, related and degenerate neighbour trees, same-named files in sibling directories.",
 "C16": "Numeral names, an importing file, version-gated patterns in the selection, trees with shared names.",
 "C18": "Four tree variants (other files / contracts only / a 1.1 MB report / odd file names incl. CRLF) crossed with the histories; an edit that leaves only gas findings; the reference run uses a copy of the whole structure without any earlier report and the same relative spelling of the analysed directory.",
 "C19": "38 item templates incl. named enum / value type / struct references, natspec items, arithmetic initialisers and prefix increments.",
}
for _k, _v in R7.items():
    CHECKS[_k]["text"] += " " + _v

R8 = {
 "C01": "Wide constructs (65 / 257 parts, statements, arguments, parameters, elements, events; thorough: both sides of 64, 256, 1025) and shapes the generator fixes to one spelling (21 literal spellings, try statements, non-ASCII identifiers).",
 "C02": "Inputs extreme in one dimension (harness/src/scale.rs): 257 and 1001 findings of one pattern at column 0, line numbers and byte offsets beyond 16 bits, a 70 000-byte line, NEL / LS / PS / VT / FF as line-end look-alikes; inside a gray construct every line on which one of its nodes begins is admissible.",
 "C03": "Trees with CRLF / CR / mixed / multi-byte / unterminated long contents, equal-length files that differ only beyond 4 KB and 64 KB, the same construct at one byte offset on different lines, version-looking text after the directive, directories of 65 / 257 / 1025 files, names that differ in how a number is written, adjacent test files; a selection of the version-gated patterns.",
 "C04": "The scale inputs of C01 / C02 / C09 (without chains deeper than 64) in both build profiles.",
 "C05": "The reported line must be the line on which the construct begins (mode SemanticLines); zero literals that are not address(0); every 8th program again with CRLF line ends and below a multi-byte comment line; scale inputs incl. else-if chains and sums of 70 / 300.",
 "C06": "Every 8th program again with CRLF line ends and below a multi-byte comment line; 65 / 257 functions before a constructor; non-ASCII identifiers.",
 "C07": "Same-named functions with different protection (overloads, two contracts); scale inputs.",
 "C08": "Sequences of two members (constructor / declaration / writing function before and after every other form) for memory_to_calldata; 14 elementary types x 6 declaration forms for the always-suggests halves; 65 / 257 state variables with the last one written; hex string literal as constructor right-hand side.",
 "C09": "Revert strings of 31-33, 255-257, 287 / 288 bytes (thorough: up to 65568) and with quote characters at their ends, under 0.8.3 and 0.8.4.",
 "C10": "A member's name used elsewhere in the file (constant, immutable, other size, struct member, function, mapping); a container per line and two containers on one line.",
 "C11": "A list item that names a file of the findings but carries no line is an entry that is no finding; prefix names in consecutive sections; names with quotes, backslash, control characters; 65 536 entries of one (pattern, file).",
 "C12": "Totals are read with digit-group separators; 65 536 entries of one (pattern, file).",
 "C13": "Byte-identical contents under different names under every listing order; a directory with 1001 findings of one pattern and three memory parameters rendered six times on fresh threads.",
 "C14": "A selected directory that cannot be listed is not replaced by another; 2 to 768 unknown names at once.",
 "C15": "A body between the two version gates; second run of a command and a run after an all-pattern run in one working directory; extreme predecessors (nested 1100 deep, 6000 statements, 2000-term chain, rejected by the parser) before every ordinary file on one thread; directories of 65 / 70 / 257 files, numeral names, adjacent test files.",
 "C16": "Every eligible name carries findings (checked mechanically); names t.sol, T.sol, sol.sol; directories of 65 / 257 / 1025 files; equal-length files with different findings at the same position of sibling directories.",
 "C17": "Extreme layouts of every program (66 000-blank first line, 70 000-byte comment line, NEL / LS / PS / CR in a comment, VT / FF after every line feed); directives with two constraints on different sides of a threshold.",
 "C18": "The reference run uses a copy of the whole directory structure without any earlier report and the same relative spelling of the analysed directory; a run through a configuration that selects nothing is one of the 23 actions.",
 "C19": "43 item templates (multi-byte item, same-named locals, a function name shared by items); all four-item sequences over seven member-shape templates; constructs exactly 65 536 / 131 072 bytes apart.",
}
for _k, _v in R8.items():
    CHECKS[_k]["text"] += " " + _v

R9 = {
 "C01": "Statements and declarations off the beaten track (bare catch, loops without body or condition, open-ended slices, tuples with holes, named arguments and call options, type information, assembly with calls, unnamed parameters, interface declarations, value types, file-level-only files).",
 "C03": "Files without any contract, directive-only, empty and comment-only files in the trees.",
 "C04": "Files without a single definition (empty, blank, comment-only); the rarely used constructs of scale.rs.",
 "C07": "An unprotected call next to file-level definitions; directive-only and file-level-only files; all texts of the directory pass also in one nested tree.",
 "C09": "All texts of the directory pass also in one nested tree under four listing orders.",
 "C11": "Path-like file names (./A.sol, ../C.sol, /abs/D.sol).",
 "C12": "Entries before the first section count towards the part they stand in; at the level of the program, the report of a later run in a shared working directory equals its report in a fresh one (twelve pairs of runs).",
 "C13": "The using file listed before the file that declares a value type; nested multi-line findings; every listing order of the many-findings directory; the later-run sequence of C12.",
 "C14": "Corpus files that begin with another directive; twelve spellings of the analysed directory (., ./, .., trailing slash, absolute); every third configured run follows an all-pattern run in its working directory.",
 "C15": "A predecessor that declares value types, constants and a library; two extra files (uses value types by name, a chain of initialisers) with fresh-thread baselines, repeated twenty times and after every predecessor.",
 "C16": "Every tree with a sub-directory also under a relative spelling of its root, with a trailing slash and with ./; contract-less eligible files.",
 "C17": "The contents of all plain string literals replaced by x's of the same length flag the same tokens; signatures inside strings; array updates with identifier and member indices.",
 "C18": "A fifth initial tree: contracts in sub-directories only, one of them with rarely used constructs.",
 "C19": "48 item templates (assignments outside any function, loops with missing parts, writes in receive / fallback / modifier).",
}
for _k, _v in R9.items():
    CHECKS[_k]["text"] += " " + _v

NOT_YET = "check not built yet in this revision of /verif (see DESIGN.md section 7 for the planned decision procedure)"

def main():
    hooks_commit = subprocess.run(["git", "-C", "/repo", "log", "--format=%h", "--grep=verif hook", "-n", "1"], capture_output=True, text=True).stdout.strip()
    checks = []
    for pid in ALL:
        if pid not in CHECKS:
            continue
        c = CHECKS[pid]
        checks.append({
            "property_id": pid,
            "quick_cmd": f"./check {pid} quick",
            "thorough_cmd": f"./check {pid} thorough",
            "evidence_file": f"/verif/evidence/{pid}.json",
            "replay_cmd_template": "./check replay {path}",
            "engine": c["engine"],
            "level_claimed": {"category": "model_checking", "text": c["text"], "design_ref": "DESIGN.md section " + c["ref"]},
            "level_note": c["note"],
            "technique": c["technique"],
        })
    m = {
        "version": 1,
        "setup_cmd": "./check build",
        "hooks": {
            "guard": "solstat_verif",
            "enable": "RUSTFLAGS='--cfg solstat_verif' (set by ./check for the harness build in /verif/.build/hooks; the plain solstat binary in /verif/.build/plain is built without it)",
            "baseline_off_cmd": "cd /repo && cargo test --workspace --no-fail-fast --offline",
            "source_commits": [hooks_commit] if hooks_commit else [],
            "add_only": True,
        },
        "engines": [
            {"name": "solstat-mc", "path": "/verif/harness", "serves_properties": sorted(CHECKS.keys()),
             "kind_free_text": "Rust crate linked against /repo (path dependency, rebuilt from the working tree by every check): grammar-transcribed program generator, exhaustive R-tree view of the parse tree, reference detectors, layout / file-system / report / history explorers"},
        ],
        "checks": checks,
        "not_applicable": [{"property_id": p, "reason": NOT_YET} for p in ALL if p not in CHECKS],
        "notes": "Exit codes: 0 property held on everything explored (KNOWN-FINDING lines for listed open findings), 1 VIOLATION, 2 machinery error (never a verdict). known_findings.json lists genuine defects; all found so far were repaired with fix: commits in /repo and are recorded there as fixed.",
    }
    json.dump(m, open("/verif/MANIFEST.json", "w"), indent=1)
    print("checks:", [c["property_id"] for c in checks])

if __name__ == "__main__":
    main()
