#!/usr/bin/env python3
"""Regenerates /verif/MANIFEST.json from the table below (run after adding a check)."""
import json, subprocess

CHECKS = {
 "C01": dict(engine="synth+rtree+c01", ref="7/C01, 4, 5.1-5.2",
   text="Bounded-exhaustive exploration of the real walk_node_for_targets / extract_target(s)_from_node: every program of the grammar-transcribed space Σ (all derivation paths up to length 2 quick / 3 thorough, every node kind in every parse-tree slot), every node of every program as search root, full / singleton / detector target sets, compared with an independent wildcard-free reference traversal. Right level: the property quantifies over tree shapes and positions, which is a finite space once the path length is bounded; the traversal's defects are local to one (parent, field) pair and show on minimal programs.",
   note="Trusted: solang-parser 0.1.18 (parse tree and locations), rustc exhaustiveness checking of the reference conversion. Bounded by path length; programs beyond it are not explored.",
   technique="bounded-exhaustive input-space enumeration (small-scope model checking) of the implementation against a reference traversal; generator traces validated against the parser"),
}
ALL = ["C%02d" % i for i in range(1, 20)]
NOT_YET = "check not built yet in this revision of /verif (see DESIGN.md section 7 for the planned decision procedure)"

def main():
    hooks_commit = subprocess.run(["git", "-C", "/repo", "log", "--format=%h", "--grep=verif hook", "-n", "1"], capture_output=True, text=True).stdout.strip()
    checks = []
    for pid in ALL:
        if pid not in CHECKS:
            continue
        c = CHECKS[pid]
        checks.append({
            "property_id": pid,
            "quick_cmd": f"./check {pid} quick",
            "thorough_cmd": f"./check {pid} thorough",
            "evidence_file": f"/verif/evidence/{pid}.json",
            "replay_cmd_template": "./check replay {path}",
            "engine": c["engine"],
            "level_claimed": {"category": "model_checking", "text": c["text"], "design_ref": "DESIGN.md section " + c["ref"]},
            "level_note": c["note"],
            "technique": c["technique"],
        })
    m = {
        "version": 1,
        "setup_cmd": "./check build",
        "hooks": {
            "guard": "solstat_verif",
            "enable": "RUSTFLAGS='--cfg solstat_verif' (set by ./check for the harness build in /verif/.build/hooks; the plain solstat binary in /verif/.build/plain is built without it)",
            "baseline_off_cmd": "cd /repo && cargo test --workspace --no-fail-fast --offline",
            "source_commits": [hooks_commit] if hooks_commit else [],
            "add_only": True,
        },
        "engines": [
            {"name": "solstat-mc", "path": "/verif/harness", "serves_properties": sorted(CHECKS.keys()),
             "kind_free_text": "Rust crate linked against /repo (path dependency, rebuilt from the working tree by every check): grammar-transcribed program generator, exhaustive R-tree view of the parse tree, reference detectors, layout / file-system / report / history explorers"},
        ],
        "checks": checks,
        "not_applicable": [{"property_id": p, "reason": NOT_YET} for p in ALL if p not in CHECKS],
        "notes": "Exit codes: 0 property held on everything explored (KNOWN-FINDING lines for listed open findings), 1 VIOLATION, 2 machinery error (never a verdict). known_findings.json lists genuine defects; all found so far were repaired with fix: commits in /repo and are recorded there as fixed.",
    }
    json.dump(m, open("/verif/MANIFEST.json", "w"), indent=1)
    print("checks:", [c["property_id"] for c in checks])

if __name__ == "__main__":
    main()
